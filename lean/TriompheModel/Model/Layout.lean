/-!
# M2 — layouts and addresses (definitions only; import-free so the drivers link)

Exact transcription over `Nat` of the parts of `core::alloc::Layout` that triomphe uses, with the
pointer width `bits` explicit and `Option` for the checked operations, plus the `repr(C)` struct
layout rule used on the *release* side (`Box::from_raw` on `*mut ArcInner<T>` computes
`Layout::for_value`, i.e. the type layout of `ArcInner<T>` for the pointer's metadata).

Rust rounds up with `(n + a - 1) & !(a - 1)`; for a power of two `a` this equals
`(n + a - 1) / a * a`, which is what `roundUp` uses (`Proofs/Layout.lean` proves the facts needed).
-/
namespace LY

/-- round `n` up to a multiple of `a` -/
def roundUp (n a : Nat) : Nat := (n + a - 1) / a * a

structure Layout where
  size : Nat
  align : Nat
deriving DecidableEq, Repr, Inhabited

/-- `isize::MAX - (align - 1)`: the largest size `Layout::from_size_align` accepts -/
def maxSize (bits align : Nat) : Nat := 2 ^ (bits - 1) - align

/-- `Layout::from_size_align` -/
def Layout.mk? (bits size align : Nat) : Option Layout :=
  if size ≤ maxSize bits align then some ⟨size, align⟩ else none

/-- `Layout::padding_needed_for` -/
def Layout.paddingNeededFor (l : Layout) (align : Nat) : Nat := roundUp l.size align - l.size

/-- `Layout::extend`: returns the combined layout and the offset of `next` -/
def Layout.extend (bits : Nat) (l next : Layout) : Option (Layout × Nat) :=
  let newAlign := max l.align next.align
  let offset := roundUp l.size next.align
  let newSize := offset + next.size
  if newSize ≤ maxSize bits newAlign then some (⟨newSize, newAlign⟩, offset) else none

/-- `Layout::pad_to_align` -/
def Layout.padToAlign (l : Layout) : Layout := ⟨roundUp l.size l.align, l.align⟩

/-- `Layout::array::<T>(n)` -/
def Layout.array (bits : Nat) (elem : Layout) (n : Nat) : Option Layout :=
  if elem.size * n ≤ maxSize bits elem.align then some ⟨elem.size * n, elem.align⟩ else none

/-- the layout of `usize` / `AtomicUsize` for a pointer width -/
def wordLayout (bits : Nat) : Layout := ⟨bits / 8, bits / 8⟩

/-- `repr(C)` layout of a two-field struct `{ a : A, b : B }`: (layout, offset of `b`) -/
def reprC2 (a b : Layout) : Layout × Nat :=
  let off := roundUp a.size b.align
  let al := max a.align b.align
  (⟨roundUp (off + b.size) al, al⟩, off)

/-- type layout of `[T; n]` / `[T]` with `n` elements -/
def sliceLayout (elem : Layout) (n : Nat) : Layout := ⟨elem.size * n, elem.align⟩

/-- type layout of `HeaderSlice<H, [T]>` with `n` elements (repr(C)) and the offset of the slice -/
def headerSliceLayout (h elem : Layout) (n : Nat) : Layout × Nat := reprC2 h (sliceLayout elem n)

/-- type layout of `HeaderWithLength<H>` (repr(C): header, then the `usize` length) and the offset
of the length field -/
def headerWithLengthLayout (bits : Nat) (h : Layout) : Layout × Nat := reprC2 h (wordLayout bits)

/-- release side: type layout of `ArcInner<P>` for a payload of layout `p`, and the offset of
`data` (this is also what `ArcInner::offset_of_data` recomputes from a value) -/
def arcInnerLayout (bits : Nat) (p : Layout) : Layout × Nat := reprC2 (wordLayout bits) p

/-- `ArcInner::offset_of_data`: `Layout::new::<AtomicUsize>().extend(Layout::for_value(v)).1` -/
def offsetOfData (bits : Nat) (p : Layout) : Option Nat :=
  (Layout.extend bits (wordLayout bits) p).map (·.2)

/-- request side: `Arc::allocate_for_layout(value_layout)` =
`Layout::new::<ArcInner<()>>().extend(value_layout).unwrap().0.pad_to_align()` -/
def allocLayoutFor (bits : Nat) (value : Layout) : Option Layout :=
  (Layout.extend bits (wordLayout bits) value).map (·.1.padToAlign)

/-- request side: the value layout computed by `allocate_for_header_and_slice::<H, T>(len)` =
`Layout::new::<H>().extend(Layout::array::<T>(len)?)?.0.pad_to_align()` -/
def headerSliceValueLayout (bits : Nat) (h elem : Layout) (len : Nat) : Option Layout :=
  match Layout.array bits elem len with
  | none => none
  | some arr => (Layout.extend bits h arr).map (·.1.padToAlign)

/-- request side of `allocate_for_header_and_slice` (`none` = the Rust `unwrap` panics) -/
def allocLayoutHeaderSlice (bits : Nat) (h elem : Layout) (len : Nat) : Option Layout :=
  match headerSliceValueLayout bits h elem len with
  | none => none
  | some v => allocLayoutFor bits v

/-- `Layout::new::<ArcInner<MaybeUninit<T>>>()` as used by `UniqueArc::new_uninit` -/
def allocLayoutNewUninit (bits : Nat) (t : Layout) : Layout := (arcInnerLayout bits t).1

/-- `Box::new(ArcInner { count, data })` as used by `Arc::new` -/
def allocLayoutBoxNew (bits : Nat) (t : Layout) : Layout := (arcInnerLayout bits t).1

/-- the unit layout `()` -/
def unitLayout : Layout := ⟨0, 1⟩

/-- ArcUnion's tag -/
def tagSecond (addr : Nat) : Nat := addr ||| 1
/-- `addr & !1` (clearing bit 0), written arithmetically -/
def untag (addr : Nat) : Nat := addr / 2 * 2
def isFirst (addr : Nat) : Bool := addr % 2 == 0

end LY

/-!
## Addresses, raw-pointer round trips, ThinArc, ArcUnion words (added by the layout slice)

Each definition mirrors one Rust function; `base` is the address the allocator returned
(= `self.p` / `heap_ptr()`), `p` is the layout of the payload as `Layout::for_value` sees it
(a function of the pointer's type and metadata only).
-/
namespace LY

/-- `Arc::as_ptr`: `addr_of_mut!((*self.ptr()).data)` — base plus the *type-layout* field offset -/
def asPtr (bits base : Nat) (p : Layout) : Nat := base + (arcInnerLayout bits p).2
/-- `Arc::into_raw`: `ManuallyDrop::new(this).as_ptr()` -/
def intoRaw (bits base : Nat) (p : Layout) : Nat := asPtr bits base p
/-- `Deref for Arc`: `&self.inner().data` — the address at which the value lives -/
def derefAddr (bits base : Nat) (p : Layout) : Nat := base + (arcInnerLayout bits p).2
/-- `dataAddr` of DESIGN §2: the address of the `data` field -/
def dataAddr (bits base : Nat) (p : Layout) : Nat := derefAddr bits base p
/-- `Arc::heap_ptr`: `self.p.as_ptr() as *const c_void` -/
def heapPtr (base : Nat) : Nat := base
/-- `Arc::from_raw`: `ptr.byte_sub(ArcInner::offset_of_data(ptr))` (`none` = the `unwrap` in
`offset_of_data` panics); the result is the recovered `ArcInner` address -/
def fromRaw (bits ptr : Nat) (p : Layout) : Option Nat :=
  (offsetOfData bits p).map (fun off => ptr - off)
/-- `Arc::into_raw_offset`: the `OffsetArc`'s single word is `Arc::into_raw(a)` -/
def intoRawOffset (bits base : Nat) (p : Layout) : Nat := intoRaw bits base p
/-- `Arc::from_raw_offset`: `Arc::from_raw(a.ptr.as_ptr())` -/
def fromRawOffset (bits word : Nat) (p : Layout) : Option Nat := fromRaw bits word p
/-- `Arc::borrow_arc`: the `ArcBorrow`'s single word is `self.as_ptr()` -/
def borrowArc (bits base : Nat) (p : Layout) : Nat := asPtr bits base p
/-- `Layout::for_value` on a `dyn Trait` pointee reads `(size, align)` from the vtable, which rustc
fills with the concrete type's layout -/
def forValueDyn (concrete : Layout) : Layout := ⟨concrete.size, concrete.align⟩

/-- payload of a ThinArc block: `HeaderSlice<HeaderWithLength<H>, [T]>` with `len` elements;
(layout, offset of the slice inside the payload) -/
def thinPayload (bits : Nat) (h t : Layout) (len : Nat) : Layout × Nat :=
  headerSliceLayout (headerWithLengthLayout bits h).1 t len
/-- `ThinArc::ptr`: `self.ptr.cast().as_ptr()` — the `ArcInner` address itself -/
def thinPtr (base : Nat) : Nat := base
/-- `ThinArc::heap_ptr` = `self.ptr()` -/
def thinHeapPtr (base : Nat) : Nat := thinPtr base
/-- `ThinArc::as_ptr` = `self.ptr()` (what the code does; see finding ThinArc-raw-is-block-address) -/
def thinAsPtr (base : Nat) : Nat := thinPtr base
/-- `ThinArc::into_raw` = `ManuallyDrop::new(self).ptr()` -/
def thinIntoRaw (base : Nat) : Nat := thinPtr base
/-- `ThinArc::from_raw`: the word becomes `self.ptr` unchanged -/
def thinFromRaw (word : Nat) : Nat := word
/-- `Deref for ThinArc`: `(*thin_to_thick(self)).data.inner()` — address of the payload inside the
fat `ArcInner<HeaderSlice<HeaderWithLength<H>, [T]>>` with the stored length as metadata -/
def thinDerefAddr (bits base : Nat) (h t : Layout) (len : Nat) : Nat :=
  base + (arcInnerLayout bits (thinPayload bits h t len).1).2
/-- `thin_to_thick` reads `(*thin).data.header.length` through the *thin* pointee type
`ArcInner<HeaderSlice<HeaderWithLength<H>, [T; 0]>>`: address of that field -/
def thinLengthAddr (bits base : Nat) (h t : Layout) : Nat :=
  base + (arcInnerLayout bits (thinPayload bits h t 0).1).2 + (headerWithLengthLayout bits h).2
/-- address of the `length` field as the fat view (`len` elements) sees it -/
def fatLengthAddr (bits base : Nat) (h t : Layout) (len : Nat) : Nat :=
  base + (arcInnerLayout bits (thinPayload bits h t len).1).2 + (headerWithLengthLayout bits h).2

/-- the slice constructors of `Arc<HeaderSlice<H, [T]>>` -/
inductive HsCtor where
  | iter | slice | vec | uninit
deriving DecidableEq, Repr
/-- `from_header_and_iter` / `from_header_and_slice` start with
`assert_ne!(size_of::<T>(), 0, "Need to think about ZST")`; `from_header_and_vec` and
`from_header_and_uninit_slice` do not -/
def HsCtor.assertsNonZst : HsCtor → Bool
  | .iter => true | .slice => true | .vec => false | .uninit => false

inductive AllocRes where
  | ok (l : Layout)
  | zstRefused
  | overflow
deriving DecidableEq, Repr

/-- a header+slice constructor up to and including its allocation request -/
def ctorHeaderSlice (bits : Nat) (c : HsCtor) (h t : Layout) (len : Nat) : AllocRes :=
  if c.assertsNonZst && t.size == 0 then .zstRefused
  else match allocLayoutHeaderSlice bits h t len with
    | none => .overflow
    | some l => .ok l

/-- `ArcUnion::from_first`: the word is `Arc::into_raw(other)` -/
def unionFromFirst (dataAddr : Nat) : Nat := dataAddr
/-- `ArcUnion::from_second`: `Arc::into_raw(other) as usize | 0x1` -/
def unionFromSecond (dataAddr : Nat) : Nat := tagSecond dataAddr
/-- `ArcUnion::borrow`: `(is_first, address handed to ArcBorrow::from_ptr)` -/
def unionBorrow (word : Nat) : Bool × Nat :=
  if isFirst word then (true, word) else (false, untag word)

/-- number of machine words of each handle type (`kind` as printed by the harness); `fat` =
the pointee is a slice / str / trait object -/
def handleWords (fat : Bool) : Nat := if fat then 2 else 1

end LY

/-! ## constructors up to their allocation request (mirrors which layout computation each uses) -/
namespace LY

/-- constructors of `Arc<T>` for sized `T` -/
inductive SizedCtor where
  /-- `Arc::new`, `Arc::from(T)`, `UniqueArc::new`, `Arc::new_uninit` (= `Arc::new(MaybeUninit::uninit())`):
  `Box::new(ArcInner { .. })` -/
  | boxNew
  /-- `Arc::from(Box<T>)`: `allocate_for_layout(Layout::for_value(&b))` -/
  | fromBox
  /-- `UniqueArc::new_uninit`: `alloc(Layout::new::<ArcInner<MaybeUninit<T>>>())` -/
  | uniqUninit
deriving DecidableEq, Repr

def ctorSized (bits : Nat) (c : SizedCtor) (t : Layout) : AllocRes :=
  match c with
  | .boxNew => .ok (allocLayoutBoxNew bits t)
  | .uniqUninit => .ok (allocLayoutNewUninit bits t)
  | .fromBox => match allocLayoutFor bits t with
    | none => .overflow
    | some l => .ok l

/-- constructors of `Arc<[T]>`: which header+slice constructor they go through (with the unit
header) before the header is erased -/
inductive SliceCtor where
  /-- `Arc::<[T]>::from(&[T])` → `from_header_and_slice((), _)` -/
  | fromRef
  /-- `Arc::<[T]>::from(Vec<T>)` → `from_header_and_vec((), _)` -/
  | fromVec
  /-- `FromIterator` with `size_hint` lower = upper → `from_header_and_iter((), _)` -/
  | iterExact
  /-- `FromIterator` otherwise → collect into a `Vec`, then `From<Vec<T>>` -/
  | iterUnknown
  /-- `Arc::new_uninit_slice` / `UniqueArc::new_uninit_slice` → `from_header_and_uninit_slice((), _)` -/
  | uninit
deriving DecidableEq, Repr

def SliceCtor.via : SliceCtor → HsCtor
  | .fromRef => .slice | .fromVec => .vec | .iterExact => .iter | .iterUnknown => .vec | .uninit => .uninit

def ctorSlice (bits : Nat) (c : SliceCtor) (t : Layout) (len : Nat) : AllocRes :=
  ctorHeaderSlice bits c.via unitLayout t len

end LY
