import TriompheModel.WM.Counting
namespace WM

/-- handles released in a history -/
def deads : List Op → List H
  | [] => []
  | .dec h :: r => h :: deads r
  | .inc _ _ :: r => deads r

theorem deads_append (a b : List Op) : deads (a ++ b) = deads a ++ deads b := by
  induction a with
  | nil => rfl
  | cons o r ih => cases o <;> simp [deads, ih]

theorem mem_deads {ops : List Op} {h : H} : h ∈ deads ops ↔ Op.dec h ∈ ops := by
  induction ops with
  | nil => simp [deads]
  | cons o r ih => cases o <;> simp [deads, ih]

/-- children created in a history -/
def kids : List Op → List H
  | [] => []
  | .inc c _ :: r => c :: kids r
  | .dec _ :: r => kids r

theorem kids_append (a b : List Op) : kids (a ++ b) = kids a ++ kids b := by
  induction a with
  | nil => rfl
  | cons o r ih => cases o <;> simp [kids, ih]

theorem mem_kids {ops : List Op} {c : H} : c ∈ kids ops ↔ ∃ s, Op.inc c s ∈ ops := by
  induction ops with
  | nil => simp [kids]
  | cons o r ih =>
    cases o with
    | inc c' s' =>
      simp only [kids, List.mem_cons, ih, Op.inc.injEq]
      constructor
      · rintro (rfl | ⟨s, hs⟩)
        · exact ⟨s', Or.inl ⟨rfl, rfl⟩⟩
        · exact ⟨s, Or.inr hs⟩
      · rintro ⟨s, (⟨rfl, rfl⟩ | hs)⟩
        · exact Or.inl rfl
        · exact Or.inr ⟨s, hs⟩
    | dec k => simp [kids, ih]

theorem born_foldl (ops : List Op) : ∀ (s : St) h,
    h ∈ (ops.foldl St.step s).born ↔ h ∈ s.born ∨ h ∈ kids ops := by
  induction ops with
  | nil => intro s h; simp [kids]
  | cons o r ih =>
    intro s h
    rw [List.foldl_cons, ih]
    cases o with
    | inc c src =>
      simp only [St.step, stepBorn, List.mem_cons, kids]
      constructor
      · rintro ((rfl | hb) | hk)
        · exact Or.inr (Or.inl rfl)
        · exact Or.inl hb
        · exact Or.inr (Or.inr hk)
      · rintro (hb | rfl | hk)
        · exact Or.inl (Or.inr hb)
        · exact Or.inl (Or.inl rfl)
        · exact Or.inr hk
    | dec k => simp [St.step, stepBorn, kids]

theorem born_run (ops : List Op) (h : H) : h ∈ (run ops).born ↔ h = 0 ∨ h ∈ kids ops := by
  simp [run, born_foldl, St.init]

/-- In a well-formed history a handle is live iff it was born and not yet released,
and only born handles are ever released. -/
theorem live_iff {ops : List Op} (hw : WF ops) :
    (∀ h, h ∈ (run ops).live ↔ h ∈ (run ops).born ∧ h ∉ deads ops) ∧
    (∀ h, h ∈ deads ops → h ∈ (run ops).born) := by
  induction hw with
  | nil => simp [run, St.init, deads]
  | @snoc ops o hw he ih =>
    have hi := inv_run hw
    obtain ⟨ih1, ih2⟩ := ih
    rw [run_snoc, deads_append]
    cases o with
    | inc c s =>
      obtain ⟨_, hc⟩ := he
      have hcd : c ∉ deads ops := fun h => hc (ih2 _ h)
      constructor
      · intro h
        simp only [St.step, stepLive, stepBorn, List.mem_cons, deads, List.append_nil, ih1]
        constructor
        · rintro (rfl | ⟨hb, hd⟩)
          · exact ⟨Or.inl rfl, hcd⟩
          · exact ⟨Or.inr hb, hd⟩
        · rintro ⟨rfl | hb, hd⟩
          · exact Or.inl rfl
          · exact Or.inr ⟨hb, hd⟩
      · intro h hh
        simp only [deads, List.append_nil] at hh
        simp only [St.step, stepBorn, List.mem_cons]
        exact Or.inr (ih2 _ hh)
    | dec k =>
      have hk : k ∈ (run ops).live := he
      constructor
      · intro h
        simp only [St.step, stepLive, stepBorn, deads, List.mem_append, List.mem_singleton,
          hi.nodup.mem_erase_iff, ih1]
        constructor
        · rintro ⟨hne, hb, hd⟩
          exact ⟨hb, fun h' => h'.elim hd hne⟩
        · rintro ⟨hb, hd⟩
          exact ⟨fun e => hd (Or.inr e), hb, fun e => hd (Or.inl e)⟩
      · intro h hh
        simp only [deads, List.mem_append, List.mem_singleton] at hh
        simp only [St.step, stepBorn]
        rcases hh with hh | rfl
        · exact ih2 _ hh
        · exact hi.sub _ hk

end WM
