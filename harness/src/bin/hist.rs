//! History correspondence harness (Tie B for C01 C03 C04 C06 C07 C08 C09 C10 C12 C15).
//! Reads one op per line on stdin, runs it on the REAL library (path dependency on the repository
//! under test), prints one canonical observation line per op, in exactly the format of the Lean
//! driver `drv_hist` (lean/TriompheModel/Driver/Hist.lean):
//!   `<status> out=<..> ev=[<sorted events>] aux=<live non-Arc allocations> | <probe of every slot>`
#![allow(static_mut_refs, dangerous_implicit_autorefs, clippy::all)]
use harness::*;
use std::cell::Cell;
use std::ffi::c_void;
use std::io::{BufRead, Write};
use std::mem::MaybeUninit;
use std::panic::{catch_unwind, AssertUnwindSafe};
use triomphe::*;

#[global_allocator]
static G: Track = Track;

type T = Tracked;
type TB = TrackedB;
type HS = HeaderSlice<T, [T]>;
type US = HeaderSlice<(), [T]>;
type HWL = HeaderSlice<HeaderWithLength<T>, [T]>;
type HSM = HeaderSlice<T, [MaybeUninit<T>]>;

trait TrW: Tr { fn set(&mut self, v: u32); }
impl TrW for T { fn set(&mut self, v: u32) { self.set_val(v); } }

#[allow(dead_code)]
enum Slot {
    Empty,
    A(Arc<T>), AB(Arc<TB>), AD(Arc<dyn TrW>), AS(Arc<[T]>), AU(Arc<US>), AH(Arc<HS>), AW(Arc<HWL>),
    AM(Arc<MaybeUninit<T>>), AMS(Arc<[MaybeUninit<T>]>),
    Th(ThinArc<T, T>), O(OffsetArc<T>), U(ArcUnion<T, TB>),
    Q(UniqueArc<T>), QS(UniqueArc<[T]>), QH(UniqueArc<HS>), QD(UniqueArc<dyn TrW>), QW(UniqueArc<HWL>),
    QM(UniqueArc<MaybeUninit<T>>), QMS(UniqueArc<[MaybeUninit<T>]>), QHM(UniqueArc<HSM>),
    R(*const T), RB(*const TB), RS(*const [T]), RD(*const dyn TrW), RT(*const c_void),
    #[cfg(feature = "t_arc_swap")]
    SW(arc_swap::ArcSwapAny<Arc<T>>),
}
use Slot::*;

const NSLOTS: usize = 32;

// ---------------------------------------------------------------------------------------------
// scripted iterator
struct ScriptIter {
    lens: Vec<usize>, len_calls: Cell<usize>,
    hints: Vec<(usize, Option<usize>)>, hint_calls: Cell<usize>,
    items: Vec<Option<T>>, total: usize, next_calls: usize, panic_at: Option<usize>,
    /// a NON-FUSED source: what the iterator would yield if it were polled again after its first `None`
    /// (created only when that happens; these values are not part of the input sequence)
    late: Vec<(u32, u32)>,
}
fn nth_or_last<X: Copy>(v: &[X], i: usize, d: X) -> X { if i < v.len() { v[i] } else if let Some(x) = v.last() { *x } else { d } }
impl Iterator for ScriptIter {
    type Item = T;
    fn next(&mut self) -> Option<T> {
        let i = self.next_calls;
        self.next_calls += 1;
        if Some(i) == self.panic_at { panic!("scripted iterator panic"); }
        if i < self.items.len() { self.items[i].take() }
        else if i == self.items.len() { None }
        else { let j = i - self.items.len() - 1; if j < self.late.len() { Some(T::new(self.late[j].0, self.late[j].1)) } else { None } }
    }
    fn size_hint(&self) -> (usize, Option<usize>) {
        let i = self.hint_calls.get();
        self.hint_calls.set(i + 1);
        nth_or_last(&self.hints, i, (self.total, Some(self.total)))
    }
}
impl ExactSizeIterator for ScriptIter {
    fn len(&self) -> usize {
        let i = self.len_calls.get();
        self.len_calls.set(i + 1);
        nth_or_last(&self.lens, i, self.total)
    }
}

// ---------------------------------------------------------------------------------------------
// parsing helpers
fn p_item(s: &str) -> Option<(u32, u32)> { let mut it = s.split(':'); Some((it.next()?.parse().ok()?, it.next()?.parse().ok()?)) }
fn p_items(s: &str) -> Option<Vec<(u32, u32)>> { if s == "-" { return Some(vec![]); } s.split(',').map(p_item).collect() }
fn p_nats(s: &str) -> Option<Vec<usize>> { if s == "-" { return Some(vec![]); } s.split(',').map(|x| x.parse().ok()).collect() }
fn p_hints(s: &str) -> Option<Vec<(usize, Option<usize>)>> {
    if s == "-" { return Some(vec![]); }
    s.split(',').map(|p| { let mut it = p.split(':'); let lo: usize = it.next()?.parse().ok()?; let hi = it.next()?; Some((lo, if hi == "*" { None } else { Some(hi.parse().ok()?) })) }).collect()
}
fn mk_items(v: &[(u32, u32)]) -> Vec<T> { unrecorded(|| v.iter().map(|&(i, x)| T::new(i, x)).collect()) }
/// a Vec with exactly the requested capacity, allocated while recording (it is the *source container*)
fn mk_vec(cap: usize, v: &[(u32, u32)]) -> Vec<T> {
    let mut out: Vec<T> = lib(|| Vec::with_capacity(cap.max(v.len())));
    for &(i, x) in v { out.push(T::new(i, x)); }
    out
}

// ---------------------------------------------------------------------------------------------
struct World {
    slots: Vec<Slot>,
    /// block id -> which element slots have been written (for uninit handles; the unsafe contract
    /// of assume_init is enforced by the harness, as the generator and the model do)
    written: std::collections::HashMap<i32, Vec<bool>>,
    next_block: i32,
    aux_live: i64,
    graveyard: Vec<T>,
}

fn first_word<H>(h: &H) -> usize { unsafe { *(h as *const H as *const usize) } }

fn block_of_addr(addr: usize) -> (i32, usize) {
    match rec_of(addr) { Some((i, off)) => (rec(i).block, off), None => (-1, 0) }
}

fn show_t(t: &T) -> String { let (i, v) = t.read(); format!("{}.{}", i, v) }
fn show_tb(t: &TB) -> String { let (i, v) = t.read(); format!("{}.{}", i, v) }
fn show_slice(s: &[T]) -> String { format!("[{}]", s.iter().map(show_t).collect::<Vec<_>>().join(",")) }

fn cnts(v: &[usize]) -> String {
    if v.is_empty() { return "-".into(); }
    if v.iter().all(|x| *x == v[0]) { v[0].to_string() } else { v.iter().map(|x| x.to_string()).collect::<Vec<_>>().join("|") }
}

impl World {
    fn new() -> Self { World { slots: (0..NSLOTS).map(|_| Empty).collect(), written: Default::default(), next_block: 0, aux_live: 0, graveyard: vec![] } }

    fn probe_slot(&self, i: usize) -> Option<String> {
        // (kind, ty, word, len, counts, digest)
        let (kind, ty, word, len, c, dg): (&str, &str, usize, usize, Vec<usize>, String) = match &self.slots[i] {
            Empty => return None,
            A(a) => ("arc", "sized", first_word(a), 1, vec![Arc::count(a), Arc::strong_count(a), ArcBorrow::strong_count(&a.borrow_arc())], format!("[{}]", show_t(a))),
            AB(a) => ("arc", "sizedB", first_word(a), 1, vec![Arc::count(a), Arc::strong_count(a), ArcBorrow::strong_count(&a.borrow_arc())], format!("[{}]", show_tb(a))),
            AD(a) => ("arc", "dyn", first_word(a), 1, vec![Arc::count(a), Arc::strong_count(a)], { let (x, y) = a.read_dyn(); format!("[{}.{}]", x, y) }),
            AS(a) => ("arc", "slice", first_word(a), a.len(), vec![Arc::count(a), Arc::strong_count(a)], show_slice(a)),
            AU(a) => ("arc", "uslice", first_word(a), a.slice.len(), vec![Arc::count(a), Arc::strong_count(a)], show_slice(&a.slice)),
            AH(a) => ("arc", "hs", first_word(a), a.slice.len(), vec![Arc::count(a), Arc::strong_count(a)], format!("h{}{}", show_t(&a.header), show_slice(&a.slice))),
            AW(a) => ("arc", "hwl", first_word(a), a.slice.len(), vec![Arc::count(a), Arc::strong_count(a)], format!("h{}{}", show_t(&a.header.header), show_slice(&a.slice))),
            AM(a) => ("arc", "mu", first_word(a), 1, vec![Arc::count(a), Arc::strong_count(a)], "-".into()),
            AMS(a) => ("arc", "muSlice", first_word(a), a.len(), vec![Arc::count(a), Arc::strong_count(a)], "-".into()),
            Th(t) => ("thin", "hwl", first_word(t), t.slice.len(), vec![ThinArc::strong_count(t), t.with_arc(|a| Arc::count(a))], format!("h{}{}", show_t(&t.header.header), show_slice(&t.slice))),
            O(o) => ("offset", "sized", first_word(o), 1, vec![OffsetArc::strong_count(o), ArcBorrow::strong_count(&o.borrow_arc()), o.with_arc(|a| Arc::count(a))], format!("[{}]", show_t(o))),
            U(u) => {
                let w = first_word(u) & !1usize;
                let c = vec![ArcUnion::strong_count(u), ArcUnionBorrow::strong_count(&u.borrow())];
                match u.borrow() {
                    ArcUnionBorrow::First(b) => (if u.is_first() && !u.is_second() && u.as_first().is_some() && u.as_second().is_none() { "unionA" } else { "unionA?" }, "sized", w, 1, c, format!("[{}]", show_t(&b))),
                    ArcUnionBorrow::Second(b) => (if u.is_second() && !u.is_first() && u.as_second().is_some() && u.as_first().is_none() { "unionB" } else { "unionB?" }, "sizedB", w, 1, c, format!("[{}]", show_tb(&b))),
                }
            }
            Q(q) => ("uniq", "sized", first_word(q), 1, vec![], format!("[{}]", show_t(q))),
            QS(q) => ("uniq", "slice", first_word(q), q.len(), vec![], show_slice(q)),
            QW(q) => ("uniq", "hwl", first_word(q), q.slice.len(), vec![], format!("h{}{}", show_t(&q.header.header), show_slice(&q.slice))),
            QD(q) => ("uniq", "dyn", first_word(q), 1, vec![], { let (x, y) = q.read_dyn(); format!("[{}.{}]", x, y) }),
            QH(q) => ("uniq", "hs", first_word(q), q.slice.len(), vec![], format!("h{}{}", show_t(&q.header), show_slice(&q.slice))),
            QM(q) => ("uniq", "mu", first_word(q), 1, vec![], "-".into()),
            QMS(q) => ("uniq", "muSlice", first_word(q), q.len(), vec![], "-".into()),
            QHM(q) => ("uniq", "hsMu", first_word(q), q.slice.len(), vec![], format!("h{}-", show_t(&q.header))),
            #[cfg(feature = "t_arc_swap")]
            SW(c) => { let g = c.load(); let a: &Arc<T> = &g; ("arc", "sized", first_word(a), 1, vec![Arc::count(a), Arc::strong_count(a)], format!("[{}]", show_t(a))) }
            R(p) => ("raw", "sized", *p as usize, 1, vec![], format!("[{}]", show_t(unsafe { &**p }))),
            RB(p) => ("raw", "sizedB", *p as usize, 1, vec![], format!("[{}]", show_tb(unsafe { &**p }))),
            RS(p) => ("raw", "slice", *p as *const T as usize, unsafe { (&**p).len() }, vec![], show_slice(unsafe { &**p })),
            RD(p) => ("raw", "dyn", *p as *const u8 as usize, 1, vec![], { let (x, y) = unsafe { (&**p).read_dyn() }; format!("[{}.{}]", x, y) }),
            RT(p) => {
                // a raw thin pointer: look through it the way ThinArc would, without taking ownership
                let t = std::mem::ManuallyDrop::new(unsafe { ThinArc::<T, T>::from_raw(*p) });
                ("rawThin", "hwl", *p as usize, t.slice.len(), vec![], format!("h{}{}", show_t(&t.header.header), show_slice(&t.slice)))
            }
        };
        let (b, off) = block_of_addr(word);
        Some(format!("s{}={}.{}@b{}+{}/len{}/cnt{}/{}", i, kind, ty, b, off, len, cnts(&c), dg))
    }

    fn block_of_slot(&self, i: usize) -> i32 {
        let w = match &self.slots[i] {
            Empty => return -1,
            A(a) => first_word(a), AB(a) => first_word(a), AD(a) => first_word(a), AS(a) => first_word(a), AU(a) => first_word(a),
            AH(a) => first_word(a), AW(a) => first_word(a), AM(a) => first_word(a), AMS(a) => first_word(a), Th(a) => first_word(a),
            O(a) => first_word(a), U(a) => first_word(a) & !1, Q(a) => first_word(a), QS(a) => first_word(a), QH(a) => first_word(a), QD(a) => first_word(a), QW(a) => first_word(a),
            #[cfg(feature = "t_arc_swap")]
            SW(c) => { let g = c.load(); let a: &Arc<T> = &g; first_word(a) }
            QM(a) => first_word(a), QMS(a) => first_word(a), QHM(a) => first_word(a),
            R(p) => *p as usize, RB(p) => *p as usize, RS(p) => *p as *const T as usize, RD(p) => *p as *const u8 as usize, RT(p) => *p as usize,
        };
        block_of_addr(w).0
    }

    fn all_written(&self, i: usize, n: usize) -> bool {
        let b = self.block_of_slot(i);
        match self.written.get(&b) { Some(w) => w.len() >= n && w.iter().take(n).all(|x| *x), None => n == 0 }
    }
    fn mark_written(&mut self, i: usize, k: usize, n: usize) {
        let b = self.block_of_slot(i);
        let w = self.written.entry(b).or_insert_with(|| vec![false; n]);
        if w.len() < n { w.resize(n, false); }
        w[k] = true;
    }

    fn take(&mut self, i: usize) -> Slot { std::mem::replace(&mut self.slots[i], Empty) }
    fn is_empty(&self, i: usize) -> bool { matches!(self.slots[i], Empty) }
}

fn take_back_and_drop(s: Slot) {
    unsafe {
        match s {
            R(p) => drop(Arc::from_raw(p)),
            RB(p) => drop(Arc::from_raw(p)),
            RS(p) => drop(Arc::from_raw_slice(p)),
            RD(p) => drop(Arc::from_raw(p)),
            RT(p) => drop(ThinArc::<T, T>::from_raw(p)),
            other => drop(other),
        }
    }
}

// ---------------------------------------------------------------------------------------------
// comparison / hashing / formatting through handles (C04: "never change the count, not even while the
// borrow is in use"; C07: a panicking comparison / hash / format impl)
struct NullW;
impl std::fmt::Write for NullW { fn write_str(&mut self, _: &str) -> std::fmt::Result { Ok(()) } }

fn ord_s(o: Option<std::cmp::Ordering>) -> &'static str {
    match o { Some(std::cmp::Ordering::Less) => "lt", Some(std::cmp::Ordering::Equal) => "eq", Some(std::cmp::Ordering::Greater) => "gt", None => "none" }
}

/// every operation once unarmed (results), then once armed (each must unwind cleanly); returns
/// (eq, partial_cmp, consistent?, number of armed operations that panicked)
fn cmp_eq_dbg<X: PartialEq + std::fmt::Debug>(x: &X, y: &X) -> (bool, String, bool, usize) {
    use std::fmt::Write;
    let eq = lib(|| x == y);
    let ne = lib(|| x != y);
    let _ = lib(|| write!(NullW, "{:?}", x));
    let mut np = 0;
    cmp_arm(true);
    if catch_unwind(AssertUnwindSafe(|| lib(|| x == y))).is_err() { np += 1; }
    cmp_arm(true);
    if catch_unwind(AssertUnwindSafe(|| lib(|| x != y))).is_err() { np += 1; }
    cmp_arm(true);
    if catch_unwind(AssertUnwindSafe(|| lib(|| write!(NullW, "{:?}", x)))).is_err() { np += 1; }
    cmp_arm(false);
    set_recording(false);
    (eq, "-".into(), eq != ne, np)
}
fn cmp_full<X: PartialEq + Ord + std::hash::Hash + std::fmt::Debug>(x: &X, y: &X) -> (bool, String, bool, usize) {
    use std::hash::Hasher;
    let (eq, _, mut cons, mut np) = cmp_eq_dbg(x, y);
    let pc = lib(|| x.partial_cmp(y));
    let c = lib(|| x.cmp(y));
    let (lt, le, gt, ge) = lib(|| (x < y, x <= y, x > y, x >= y));
    let hash = |v: &X| { let mut h = std::collections::hash_map::DefaultHasher::new(); lib(|| v.hash(&mut h)); h.finish() };
    let (hx, hy) = (hash(x), hash(y));
    cons = cons && pc == Some(c) && (c == std::cmp::Ordering::Equal) == eq
        && lt == (c == std::cmp::Ordering::Less) && gt == (c == std::cmp::Ordering::Greater) && le == !gt && ge == !lt && (!eq || hx == hy);
    for k in 0..4 {
        cmp_arm(true);
        let r = catch_unwind(AssertUnwindSafe(|| lib(|| match k {
            0 => { let _ = x.partial_cmp(y); }
            1 => { let _ = x.cmp(y); }
            2 => { let _ = x < y; }
            _ => { let mut h = std::collections::hash_map::DefaultHasher::new(); x.hash(&mut h); }
        })));
        if r.is_err() { np += 1; }
    }
    cmp_arm(false);
    set_recording(false);
    (eq, ord_s(pc).into(), cons, np)
}

enum St { Ok(String), Bad }

fn parse_u(s: &str) -> Option<usize> { s.parse().ok() }

/// run one op; returns Ok(out) / Bad; panics propagate to the caller's catch_unwind
fn run_op(w: &mut World, f: &[&str]) -> St {
    macro_rules! bad { () => { return St::Bad }; }
    macro_rules! idx { ($s:expr) => { match parse_u($s) { Some(i) if i < NSLOTS => i, _ => bad!() } }; }
    let n = f.len();
    match f[0] {
        "create" if n >= 3 => {
            let d = idx!(f[1]);
            if !w.is_empty(d) { bad!(); }
            let s = lib(|| Some(match (f[2], n) {
                ("new", 4) => { let (i, v) = match p_item(f[3]) { Some(x) => x, None => return None }; A(Arc::new(T::new(i, v))) }
                ("newB", 4) => { let (i, v) = match p_item(f[3]) { Some(x) => x, None => return None }; AB(Arc::new(TB::new(i as u64, v as u64))) }
                ("fromBox", 4) => { let (i, v) = match p_item(f[3]) { Some(x) => x, None => return None }; A(Arc::from(Box::new(T::new(i, v)))) }
                ("uniqueNew", 4) => { let (i, v) = match p_item(f[3]) { Some(x) => x, None => return None }; Q(UniqueArc::new(T::new(i, v))) }
                ("fromVec", 5) => { let cap = match parse_u(f[3]) { Some(x) => x, None => return None }; let its = match p_items(f[4]) { Some(x) => x, None => return None }; AS(Arc::from(mk_vec(cap, &its))) }
                ("hsFromVec", 6) => {
                    let (hi, hv) = match p_item(f[3]) { Some(x) => x, None => return None };
                    let cap = match parse_u(f[4]) { Some(x) => x, None => return None }; let its = match p_items(f[5]) { Some(x) => x, None => return None };
                    AH(Arc::from_header_and_vec(T::new(hi, hv), mk_vec(cap, &its)))
                }
                ("hwlFromVec", 7) => {
                    let (hi, hv) = match p_item(f[3]) { Some(x) => x, None => return None };
                    let r = match parse_u(f[4]) { Some(x) => x, None => return None };
                    let cap = match parse_u(f[5]) { Some(x) => x, None => return None }; let its = match p_items(f[6]) { Some(x) => x, None => return None };
                    AW(Arc::from_header_and_vec(HeaderWithLength::new(T::new(hi, hv), r), mk_vec(cap, &its)))
                }
                ("default", 3) => A(Arc::default()),
                ("newUninit", 3) => AM(Arc::new_uninit()),
                ("uniqueNewUninit", 3) => QM(UniqueArc::new_uninit()),
                ("newUninitSlice", 4) => { let k = match parse_u(f[3]) { Some(x) => x, None => return None }; AMS(Arc::new_uninit_slice(k)) }
                ("uniqueNewUninitSlice", 4) => { let k = match parse_u(f[3]) { Some(x) => x, None => return None }; QMS(UniqueArc::new_uninit_slice(k)) }
                ("hsUninit", 5) => {
                    let (hi, hv) = match p_item(f[3]) { Some(x) => x, None => return None }; let k = match parse_u(f[4]) { Some(x) => x, None => return None };
                    QHM(UniqueArc::from_header_and_uninit_slice(T::new(hi, hv), k))
                }
                _ => return None,
            }));
            let s = match s { Some(s) => s, None => bad!() };
            w.slots[d] = s;
            St::Ok(String::new())
        }
        "iter" if n == 8 || (n == 9 && f[8].starts_with("late=")) => {
            let d = idx!(f[1]);
            if !w.is_empty(d) { bad!(); }
            let hdr = if f[3] == "-" { None } else { match p_item(f[3]) { Some(x) => Some(x), None => bad!() } };
            let lens = match f[4].strip_prefix("lens=").and_then(p_nats) { Some(x) => x, None => bad!() };
            let hints = match f[5].strip_prefix("hints=").and_then(p_hints) { Some(x) => x, None => bad!() };
            let items = match f[6].strip_prefix("items=").and_then(p_items) { Some(x) => x, None => bad!() };
            let pan = match f[7].strip_prefix("panic=") { Some("-") => None, Some(x) => match parse_u(x) { Some(k) => Some(k), None => bad!() }, None => bad!() };
            if !matches!(f[2], "hsFromIter" | "thinFromIter" | "fromIter" | "uniqueFromIter") { bad!(); }
            if matches!(f[2], "hsFromIter" | "thinFromIter") && hdr.is_none() { bad!(); }
            let late = if n == 9 { match p_items(&f[8][5..]) { Some(x) => x, None => bad!() } } else { Vec::new() };
            let its: Vec<Option<T>> = unrecorded(|| mk_items(&items).into_iter().map(Some).collect());
            let total = its.len();
            let it = ScriptIter { lens, len_calls: Cell::new(0), hints, hint_calls: Cell::new(0), items: its, total, next_calls: 0, panic_at: pan, late };
            let s = lib(|| match f[2] {
                "hsFromIter" => { let (hi, hv) = hdr.unwrap(); AH(Arc::from_header_and_iter(T::new(hi, hv), it)) }
                "thinFromIter" => { let (hi, hv) = hdr.unwrap(); Th(ThinArc::from_header_and_iter(T::new(hi, hv), it)) }
                "fromIter" => AS(it.collect::<Arc<[T]>>()),
                _ => QS(it.collect::<UniqueArc<[T]>>()),
            });
            w.slots[d] = s;
            St::Ok(String::new())
        }
        "clone" if n == 3 => {
            let d = idx!(f[1]); let s = idx!(f[2]);
            if !w.is_empty(d) { bad!(); }
            let c = match &w.slots[s] {
                A(a) => A(a.clone()), AB(a) => AB(a.clone()), AD(a) => AD(a.clone()), AS(a) => AS(a.clone()), AU(a) => AU(a.clone()),
                AH(a) => AH(a.clone()), AW(a) => AW(a.clone()), AM(a) => AM(a.clone()), AMS(a) => AMS(a.clone()),
                Th(t) => Th(t.clone()), O(o) => O(o.clone()), U(u) => U(u.clone()),
                _ => bad!(),
            };
            w.slots[d] = c;
            St::Ok(String::new())
        }
        "cloneFrom" if n == 3 => {
            // `Clone::clone_from(&mut d, &s)` on two handles of the same type: the provided method is
            // `*d = s.clone()` (new reference first, then the old value of `d` is released)
            let d = idx!(f[1]); let s = idx!(f[2]);
            if d == s || std::mem::discriminant(&w.slots[d]) != std::mem::discriminant(&w.slots[s]) { bad!(); }
            match &w.slots[s] {
                A(_) | AB(_) | AD(_) | AS(_) | AU(_) | AH(_) | AW(_) | AM(_) | AMS(_) | Th(_) | O(_) | U(_) => {}
                _ => bad!(),
            }
            let mut dst = w.take(d);
            match (&mut dst, &w.slots[s]) {
                (A(x), A(y)) => x.clone_from(y), (AB(x), AB(y)) => x.clone_from(y), (AD(x), AD(y)) => x.clone_from(y),
                (AS(x), AS(y)) => x.clone_from(y), (AU(x), AU(y)) => x.clone_from(y), (AH(x), AH(y)) => x.clone_from(y),
                (AW(x), AW(y)) => x.clone_from(y), (AM(x), AM(y)) => x.clone_from(y), (AMS(x), AMS(y)) => x.clone_from(y),
                (Th(x), Th(y)) => x.clone_from(y), (O(x), O(y)) => x.clone_from(y), (U(x), U(y)) => x.clone_from(y),
                _ => unreachable!(),
            }
            w.slots[d] = dst;
            St::Ok(String::new())
        }
        "drop" if n == 2 => {
            let s = idx!(f[1]);
            match &w.slots[s] { Empty | R(_) | RB(_) | RS(_) | RD(_) | RT(_) => bad!(), _ => {} }
            let h = w.take(s);
            drop(h);
            St::Ok(String::new())
        }
        "conv" if n == 3 => {
            let s = idx!(f[1]);
            // validity first (so that bad-op leaves the slot untouched), then move
            let okc = match (f[2], &w.slots[s]) {
                ("intoRaw", A(_) | AB(_) | AS(_) | AD(_)) => true,
                ("fromRaw", R(_) | RB(_) | RS(_) | RD(_)) => true,
                ("intoRawOffset", A(_)) => true,
                ("fromRawOffset", O(_)) => true,
                ("fromThin", Th(_)) => true,
                ("thinIntoRaw", Th(_)) => true,
                ("thinFromRaw", RT(_)) => true,
                ("unionFirst", A(_)) => true,
                ("unionSecond", AB(_)) => true,
                ("eraseHeader", AU(_)) => true,
                ("addHeader", AS(_)) => true,
                ("shareable", Q(_) | QS(_) | QH(_) | QM(_) | QMS(_) | QD(_) | QW(_)) => true,
                ("assumeInit", AM(_) | QM(_)) => w.all_written(s, 1),
                ("assumeInit", AMS(a)) => { let k = a.len(); w.all_written(s, k) }
                ("assumeInit", QMS(a)) => { let k = a.len(); w.all_written(s, k) }
                ("assumeInit", QHM(a)) => { let k = a.slice.len(); w.all_written(s, k) }
                ("toDyn", A(_)) | ("toDyn", Q(_)) => true,
                _ => false,
            };
            if !okc { bad!(); }
            let h = w.take(s);
            let r = unsafe {
                match (f[2], h) {
                    ("intoRaw", A(a)) => R(Arc::into_raw(a)),
                    ("intoRaw", AB(a)) => RB(Arc::into_raw(a)),
                    ("intoRaw", AS(a)) => RS(Arc::into_raw(a)),
                    ("intoRaw", AD(a)) => RD(Arc::into_raw(a)),
                    ("fromRaw", R(p)) => A(Arc::from_raw(p)),
                    ("fromRaw", RB(p)) => AB(Arc::from_raw(p)),
                    ("fromRaw", RS(p)) => AS(Arc::from_raw_slice(p)),
                    ("fromRaw", RD(p)) => AD(Arc::from_raw(p)),
                    ("intoRawOffset", A(a)) => O(Arc::into_raw_offset(a)),
                    ("fromRawOffset", O(o)) => A(Arc::from_raw_offset(o)),
                    ("fromThin", Th(t)) => AW(Arc::from_thin(t)),
                    ("thinIntoRaw", Th(t)) => RT(ThinArc::into_raw(t)),
                    ("thinFromRaw", RT(p)) => Th(ThinArc::from_raw(p)),
                    ("unionFirst", A(a)) => U(ArcUnion::from_first(a)),
                    ("unionSecond", AB(a)) => U(ArcUnion::from_second(a)),
                    ("eraseHeader", AU(a)) => AS(a.into()),
                    ("addHeader", AS(a)) => AU(a.into()),
                    ("shareable", Q(q)) => A(q.shareable()),
                    ("shareable", QS(q)) => AS(q.shareable()),
                    ("shareable", QD(q)) => AD(q.shareable()),
                    ("shareable", QW(q)) => AW(q.shareable()),
                    ("shareable", QH(q)) => AH(q.shareable()),
                    ("shareable", QM(q)) => AM(q.shareable()),
                    ("shareable", QMS(q)) => AMS(q.shareable()),
                    ("assumeInit", AM(a)) => A(a.assume_init()),
                    ("assumeInit", QM(a)) => Q(UniqueArc::assume_init(a)),
                    ("assumeInit", AMS(a)) => AS(a.assume_init()),
                    ("assumeInit", QMS(a)) => QS(UniqueArc::assume_init_slice(a)),
                    ("assumeInit", QHM(a)) => QH(a.assume_init_slice_with_header()),
                    ("toDyn", A(a)) => { let p = Arc::into_raw(a); let d: *const dyn TrW = p; AD(Arc::from_raw(d)) }
                    ("toDyn", Q(a)) => QD(uniq_to_dyn(a)),
                    (_, _) => unreachable!(),
                }
            };
            w.slots[s] = r;
            St::Ok(String::new())
        }
        "intoThin" if n == 2 => {
            let s = idx!(f[1]);
            if !matches!(w.slots[s], AW(_)) { bad!(); }
            if let AW(a) = w.take(s) { w.slots[s] = Th(Arc::into_thin(a)); }
            St::Ok(String::new())
        }
        "cloneArc" if n == 3 => {
            let d = idx!(f[1]); let s = idx!(f[2]);
            if !w.is_empty(d) { bad!(); }
            let c = match &w.slots[s] {
                A(a) => A(a.borrow_arc().clone_arc()),
                AB(a) => AB(a.borrow_arc().clone_arc()),
                O(o) => if d % 2 == 0 { A(o.clone_arc()) } else { A(o.borrow_arc().clone_arc()) },
                U(u) => match u.borrow() { ArcUnionBorrow::First(b) => A(b.clone_arc()), ArcUnionBorrow::Second(b) => AB(b.clone_arc()) },
                _ => bad!(),
            };
            w.slots[d] = c;
            St::Ok(String::new())
        }
        "cmp" if n == 3 => {
            let a = idx!(f[1]); let b = idx!(f[2]);
            let (sa, sb) = (&w.slots[a], &w.slots[b]);
            macro_rules! probe { ($x:expr, $y:expr, $cnt:expr) => {{
                let (px, py) = ($x as *const _ as usize, $y as *const _ as usize);
                let _ = (px, py);
                let (x, y) = ($x, $y);
                // the probe reads the counts through raw pointers to the two handles, from inside the payload's trait method
                let (rx, ry) = (x as *const _, y as *const _);
                cmp_set_probe(Some(Box::new(move || unsafe { format!("{}.{}", $cnt(&*rx), $cnt(&*ry)) })));
            }}; }
            let r = match (sa, sb) {
                (A(x), A(y)) => {
                    probe!(x, y, |h: &Arc<T>| Arc::count(h)); let r = cmp_full(x, y); let r2 = cmp_eq_dbg(&x.borrow_arc(), &y.borrow_arc());
                    // ptr_eq (Arc and ArcBorrow) answers "same allocation", and agrees with the addresses
                    let pe = Arc::ptr_eq(x, y); let pe2 = ArcBorrow::ptr_eq(&x.borrow_arc(), &y.borrow_arc());
                    let same = x.heap_ptr() == y.heap_ptr();
                    (r.0, r.1, r.2 && r2.2 && r.0 == r2.0 && pe == same && pe2 == same, r.3 + r2.3)
                }
                (AB(x), AB(y)) => { probe!(x, y, |h: &Arc<TB>| Arc::count(h)); cmp_full(x, y) }
                (AS(x), AS(y)) => { probe!(x, y, |h: &Arc<[T]>| Arc::count(h)); let r = cmp_full(x, y); (r.0, r.1, r.2 && Arc::ptr_eq(x, y) == (x.heap_ptr() == y.heap_ptr()), r.3) }
                (AH(x), AH(y)) => { probe!(x, y, |h: &Arc<HS>| Arc::count(h)); cmp_full(x, y) }
                (AW(x), AW(y)) => { probe!(x, y, |h: &Arc<HWL>| Arc::count(h)); cmp_full(x, y) }
                (Th(x), Th(y)) => { probe!(x, y, |h: &ThinArc<T, T>| ThinArc::strong_count(h)); cmp_full(x, y) }
                (O(x), O(y)) => { probe!(x, y, |h: &OffsetArc<T>| OffsetArc::strong_count(h)); cmp_eq_dbg(x, y) }
                (U(x), U(y)) => { probe!(x, y, |h: &ArcUnion<T, TB>| ArcUnion::strong_count(h)); cmp_eq_dbg(x, y) }
                _ => { bad!() }
            };
            cmp_set_probe(None);
            let (seen, calls) = cmp_take_seen();
            St::Ok(format!("eq={};pc={};cons={};incb={};np={};calls={}", r.0, r.1, r.2, if seen.is_empty() { "-".to_string() } else { seen.join("|") }, r.3, calls))
        }
        "isUnique" if n == 2 => {
            let s = idx!(f[1]);
            let u = match &w.slots[s] {
                A(a) => a.is_unique(), AB(a) => a.is_unique(), AD(a) => a.is_unique(), AS(a) => a.is_unique(), AU(a) => a.is_unique(),
                AH(a) => a.is_unique(), AW(a) => a.is_unique(), AM(a) => a.is_unique(), AMS(a) => a.is_unique(),
                _ => bad!(),
            };
            St::Ok(format!("unique={}", u))
        }
        "getMut" | "getUnique" if n == 3 => {
            let s = idx!(f[1]); let v: u32 = match f[2].parse() { Ok(x) => x, Err(_) => bad!() };
            let gu = f[0] == "getUnique";
            macro_rules! gm { ($a:expr, $m:ident => $w:expr) => {{
                if gu { match Arc::get_unique($a) { Some($m) => { $w; "some" } None => "none" } }
                else { match Arc::get_mut($a) { Some($m) => { $w; "some" } None => "none" } }
            }}; }
            let r = match &mut w.slots[s] {
                A(a) => gm!(a, m => m.set_val(v)),
                AB(a) => gm!(a, m => m.val = v as u64),
                AD(a) => gm!(a, m => m.set(v)),
                AS(a) => gm!(a, m => if let Some(x) = m.first_mut() { x.set_val(v) }),
                AU(a) => gm!(a, m => if let Some(x) = m.slice.first_mut() { x.set_val(v) }),
                AH(a) => gm!(a, m => m.header.set_val(v)),
                AW(a) => gm!(a, m => m.header.header.set_val(v)),
                _ => bad!(),
            };
            St::Ok(r.to_string())
        }
        "makeMut" | "makeUnique" if n == 4 => {
            let s = idx!(f[1]); let v: u32 = match f[2].parse() { Ok(x) => x, Err(_) => bad!() };
            let cp = f[3] == "1";
            match (&w.slots[s], f[0]) { (A(_), _) | (O(_), "makeMut") => {} _ => bad!() }
            if cp { clone_panic_at(0); }
            let r = catch_unwind(AssertUnwindSafe(|| lib(|| match &mut w.slots[s] {
                A(a) => if f[0] == "makeMut" { Arc::make_mut(a).set_val(v) } else { Arc::make_unique(a).set_val(v) },
                O(o) => o.make_mut().set_val(v),
                _ => {}
            })));
            clone_panic_at(-1);
            if let Err(e) = r { std::panic::resume_unwind(e); }
            St::Ok(String::new())
        }
        // re-entrant user code: `T::clone`, called by the library in the middle of make_mut / make_unique / unwrap_or_clone,
        // uses ANOTHER handle in slot k: drops it, reads the count through it, or asks it for `get_mut`
        "makeMutH" | "makeUniqueH" | "unwrapOrCloneH" if (f[0] == "unwrapOrCloneH" && n == 4) || (f[0] != "unwrapOrCloneH" && n == 5) => {
            let s = idx!(f[1]);
            let (v, k, act) = if f[0] == "unwrapOrCloneH" { (0u32, idx!(f[2]), f[3]) } else { (match f[2].parse() { Ok(x) => x, Err(_) => bad!() }, idx!(f[3]), f[4]) };
            match (&w.slots[s], f[0]) { (A(_), _) | (O(_), "makeMutH") => {} _ => bad!() }
            if k == s || w.is_empty(k) || !matches!(act, "drop" | "droppanic" | "cnt" | "getmut") { bad!(); }
            if !matches!(w.slots[k], A(_) | O(_) | U(_)) { bad!(); }
            if act == "getmut" && !matches!(w.slots[k], A(_)) { bad!(); }
            let wp: *mut World = w;
            let res: std::rc::Rc<std::cell::RefCell<String>> = std::rc::Rc::new(std::cell::RefCell::new("-".to_string()));
            let res2 = res.clone();
            let act_s = act.to_string();
            set_clone_hook(Some(Box::new(move || unsafe {
                let w2 = &mut *wp;
                let r = match act_s.as_str() {
                    "drop" | "droppanic" => { let h = w2.take(k); take_back_and_drop(h); "dropped".to_string() }
                    "cnt" => match &w2.slots[k] {
                        A(a) => format!("cnt:{}", cnts(&[Arc::count(a), Arc::strong_count(a)])),
                        O(o) => format!("cnt:{}", cnts(&[OffsetArc::strong_count(o)])),
                        U(u) => format!("cnt:{}", cnts(&[ArcUnion::strong_count(u)])),
                        _ => "cnt:?".to_string(),
                    },
                    _ => match &mut w2.slots[k] { A(a) => (if Arc::get_mut(a).is_some() { "mut:some" } else { "mut:none" }).to_string(), _ => "mut:?".to_string() },
                };
                let _u = Unrec::new();
                *res2.borrow_mut() = r;
            })));
            let mut val = String::new();
            // `droppanic`: the hook drops the other handle, then `T::clone` itself panics (the hook runs first)
            if act == "droppanic" { clone_panic_at(0); }
            let r = catch_unwind(AssertUnwindSafe(|| unsafe {
                let w3 = &mut *wp;
                if f[0] == "unwrapOrCloneH" {
                    if let A(a) = w3.take(s) { let t = lib(|| Arc::unwrap_or_clone(a)); val = format!("val={};", show_t(&t)); unrecorded(|| w3.graveyard.push(t)); }
                } else {
                    lib(|| match &mut w3.slots[s] {
                        A(a) => if f[0] == "makeMutH" { Arc::make_mut(a).set_val(v) } else { Arc::make_unique(a).set_val(v) },
                        O(o) => o.make_mut().set_val(v),
                        _ => {}
                    });
                }
            }));
            set_clone_hook(None);
            clone_panic_at(-1);
            if let Err(e) = r { std::panic::resume_unwind(e); }
            let h = res.borrow().clone();
            St::Ok(format!("{}hook={}", val, h))
        }
        "tryUnwrap" if n == 2 => {
            let s = idx!(f[1]);
            if !matches!(w.slots[s], A(_)) { bad!(); }
            if let A(a) = w.take(s) {
                match Arc::try_unwrap(a) {
                    Ok(t) => { let r = format!("ok={}", show_t(&t)); unrecorded(|| w.graveyard.push(t)); return St::Ok(r); }
                    Err(a) => { w.slots[s] = A(a); return St::Ok("err".into()); }
                }
            }
            St::Bad
        }
        "unwrapOrClone" if n == 3 => {
            let s = idx!(f[1]); let cp = f[2] == "1";
            if !matches!(w.slots[s], A(_)) { bad!(); }
            if let A(a) = w.take(s) {
                if cp { clone_panic_at(0); }
                let r = catch_unwind(AssertUnwindSafe(|| Arc::unwrap_or_clone(a)));
                clone_panic_at(-1);
                match r {
                    Ok(t) => { let r = format!("val={}", show_t(&t)); unrecorded(|| w.graveyard.push(t)); return St::Ok(r); }
                    Err(e) => std::panic::resume_unwind(e),
                }
            }
            St::Bad
        }
        "intoInner" if n == 2 => {
            let s = idx!(f[1]);
            if !matches!(w.slots[s], Q(_)) { bad!(); }
            if let Q(q) = w.take(s) { let t = UniqueArc::into_inner(q); let r = format!("val={}", show_t(&t)); unrecorded(|| w.graveyard.push(t)); return St::Ok(r); }
            St::Bad
        }
        "tryUnique" if n == 2 => {
            let s = idx!(f[1]);
            if !matches!(w.slots[s], A(_) | AS(_) | AH(_) | AW(_) | AM(_) | AMS(_)) { bad!(); }
            // alternate between the two public entry points
            macro_rules! tu { ($a:expr, $arcv:ident, $uv:ident) => {{
                let r = if s % 2 == 0 { Arc::try_unique($a) } else { <UniqueArc<_> as std::convert::TryFrom<Arc<_>>>::try_from($a) };
                match r { Ok(u) => { w.slots[s] = $uv(u); "ok" } Err(a) => { w.slots[s] = $arcv(a); "err" } }
            }}; }
            let r = match w.take(s) {
                A(a) => tu!(a, A, Q), AS(a) => tu!(a, AS, QS), AH(a) => tu!(a, AH, QH), AW(a) => tu!(a, AW, QW), AM(a) => tu!(a, AM, QM), AMS(a) => tu!(a, AMS, QMS),
                _ => unreachable!(),
            };
            St::Ok(r.to_string())
        }
        "uniqWrite" if n == 3 => {
            let s = idx!(f[1]); let v: u32 = match f[2].parse() { Ok(x) => x, Err(_) => bad!() };
            match &mut w.slots[s] {
                Q(q) => q.set_val(v),
                QS(q) => if let Some(x) = q.first_mut() { x.set_val(v) },
                QH(q) => q.header.set_val(v),
                QD(q) => q.set(v),
                QW(q) => q.header.header.set_val(v),
                _ => bad!(),
            }
            St::Ok(String::new())
        }
        "writeSlot" if n == 4 => {
            let s = idx!(f[1]); let k = match parse_u(f[2]) { Some(x) => x, None => bad!() };
            let (id, val) = match p_item(f[3]) { Some(x) => x, None => bad!() };
            let len = match &w.slots[s] { AM(_) | QM(_) => 1, AMS(a) => a.len(), QMS(a) => a.len(), QHM(a) => a.slice.len(), _ => bad!() };
            if k >= len { bad!(); }
            #[allow(deprecated)]
            match &mut w.slots[s] {
                QM(q) => { q.write(T::new(id, val)); }
                AM(a) => { a.write(T::new(id, val)); }
                QMS(q) => { q[k].write(T::new(id, val)); }
                AMS(a) => { a.as_mut_slice()[k].write(T::new(id, val)); }
                QHM(q) => { q.slice[k].write(T::new(id, val)); }
                _ => unreachable!(),
            }
            w.mark_written(s, k, len);
            St::Ok(String::new())
        }
        "cb" if n == 4 => {
            let s = idx!(f[1]);
            let acts: Vec<&str> = if f[3] == "-" { vec![] } else { f[3].split(',').collect() };
            let okc = match (f[2], &w.slots[s]) {
                ("rawOffset", A(_)) | ("offsetWithArc", O(_)) | ("borrowWithArc", A(_) | AB(_) | U(_)) | ("thinWithArc", Th(_)) | ("thinWithArcMut", Th(_)) => true,
                _ => false,
            };
            if !okc { bad!(); }
            for a in &acts {
                let mut it = a.split(':'); let nm = it.next().unwrap_or(""); let arg = it.next();
                match (nm, arg) { ("cnt" | "read" | "panic", None) => {} ("clone" | "cloneArc" | "getMut" | "replace" | "swap", Some(x)) if x.parse::<usize>().is_ok() => {} _ => bad!() }
            }
            let mut acc = String::new();
            // the lending slot stays in place (a panic must not drop it); the callback reaches the
            // other slots through this raw pointer
            let wp: *mut World = w;
            let accp: *mut String = &mut acc;
            let r = catch_unwind(AssertUnwindSafe(|| unsafe {
                let acc = &mut *accp;
                macro_rules! others { () => { &mut *wp }; }
                macro_rules! arg { ($a:expr) => { $a.split(':').nth(1).unwrap().parse::<usize>().unwrap() }; }
                match (f[2], &mut (&mut *wp).slots[s]) {
                    ("rawOffset", A(a)) => a.with_raw_offset_arc(|o: &OffsetArc<T>| for act in &acts {
                        match act.split(':').next().unwrap() {
                            "cnt" => acc.push_str(&format!("cnt={};", cnts(&[OffsetArc::strong_count(o), o.with_arc(|x| Arc::count(x))]))),
                            "read" => acc.push_str(&format!("val=[{}];", show_t(o))),
                            "panic" => panic!("scripted callback panic"),
                            "clone" => { let k = arg!(act); if k < NSLOTS && others!().is_empty(k) { others!().slots[k] = O(o.clone()); acc.push_str("cloned;") } else { acc.push_str("skip;") } }
                            "cloneArc" => { let k = arg!(act); if k < NSLOTS && others!().is_empty(k) { others!().slots[k] = A(o.clone_arc()); acc.push_str("cloned;") } else { acc.push_str("skip;") } }
                            _ => acc.push_str("skip;"),
                        }
                    }),
                    ("offsetWithArc", O(o)) => o.with_arc(|a: &Arc<T>| cb_arc_sized(a, &acts, acc, wp)),
                    ("borrowWithArc", A(a)) => a.borrow_arc().with_arc(|a: &Arc<T>| cb_arc_sized(a, &acts, acc, wp)),
                    ("borrowWithArc", AB(a)) => a.borrow_arc().with_arc(|a: &Arc<TB>| cb_arc_b(a, &acts, acc, wp)),
                    ("borrowWithArc", U(u)) => match u.borrow() {
                        ArcUnionBorrow::First(b) => b.with_arc(|a: &Arc<T>| cb_arc_sized(a, &acts, acc, wp)),
                        ArcUnionBorrow::Second(b) => b.with_arc(|a: &Arc<TB>| cb_arc_b(a, &acts, acc, wp)),
                    },
                    ("thinWithArc", Th(t)) => t.with_arc(|a: &Arc<HWL>| for act in &acts {
                        match act.split(':').next().unwrap() {
                            "cnt" => acc.push_str(&format!("cnt={};", cnts(&[Arc::count(a), Arc::strong_count(a)]))),
                            "read" => acc.push_str(&format!("val=h{}{};", show_t(&a.header.header), show_slice(&a.slice))),
                            "panic" => panic!("scripted callback panic"),
                            "clone" => { let k = arg!(act); if k < NSLOTS && others!().is_empty(k) { others!().slots[k] = AW(a.clone()); acc.push_str("cloned;") } else { acc.push_str("skip;") } }
                            _ => acc.push_str("skip;"),
                        }
                    }),
                    ("thinWithArcMut", Th(t)) => t.with_arc_mut(|a: &mut Arc<HeaderSliceWithLengthProtected<T, T>>| for act in &acts {
                        match act.split(':').next().unwrap() {
                            "cnt" => acc.push_str(&format!("cnt={};", cnts(&[Arc::count(a), Arc::strong_count(a)]))),
                            "read" => acc.push_str(&format!("val=h{}{};", show_t(a.header()), show_slice(a.slice()))),
                            "panic" => panic!("scripted callback panic"),
                            "clone" => { let k = arg!(act); if k < NSLOTS && others!().is_empty(k) { others!().slots[k] = Th(Arc::protected_into_thin(a.clone())); acc.push_str("cloned;") } else { acc.push_str("skip;") } }
                            "getMut" => { let v = arg!(act) as u32; match Arc::get_mut(a) { Some(m) => { m.header_mut().set_val(v); acc.push_str("mut=some;") } None => acc.push_str("mut=none;") } }
                            "replace" => {
                                let k = arg!(act);
                                if k < NSLOTS && k != s && matches!(others!().slots[k], Th(_)) {
                                    if let Th(t2) = others!().take(k) { *a = Arc::protected_from_thin(t2); acc.push_str("replaced;") }
                                } else { acc.push_str("skip;") }
                            }
                            "swap" => {
                                // `mem::swap(arc, &mut spare)` with spare = the protected Arc of the ThinArc in slot k; the
                                // spare (now the old transient) goes back into slot k: no count moves, nothing is dropped
                                let k = arg!(act);
                                if k < NSLOTS && k != s && matches!(others!().slots[k], Th(_)) {
                                    if let Th(t2) = others!().take(k) {
                                        let mut spare = Arc::protected_from_thin(t2);
                                        std::mem::swap(a, &mut spare);
                                        others!().slots[k] = Th(Arc::protected_into_thin(spare));
                                        acc.push_str("swapped;")
                                    }
                                } else { acc.push_str("skip;") }
                            }
                            _ => acc.push_str("skip;"),
                        }
                    }),
                    _ => {}
                }
            }));
            match r { Ok(()) => St::Ok(acc), Err(e) => { CB_ACC.with(|c| *c.borrow_mut() = acc); std::panic::resume_unwind(e) } }
        }
        #[cfg(feature = "t_arc_swap")]
        "asw" if n >= 3 => {
            // arc-swap integration (RefCnt for Arc<T>): the cell is one more owning handle
            match (f[1], n) {
                ("new", 4) => {
                    let d = idx!(f[2]); let s = idx!(f[3]);
                    if !w.is_empty(d) || !matches!(w.slots[s], A(_)) { bad!(); }
                    if let A(a) = w.take(s) { w.slots[d] = SW(lib(|| arc_swap::ArcSwapAny::new(a))); }
                    St::Ok(String::new())
                }
                ("load", 3) => {
                    let c = idx!(f[2]);
                    match &w.slots[c] { SW(cell) => { lib(|| { let g = cell.load(); let _ = g.read(); drop(g); }); St::Ok(String::new()) } _ => bad!() }
                }
                ("loadFull", 4) => {
                    let d = idx!(f[2]); let c = idx!(f[3]);
                    if !w.is_empty(d) { bad!(); }
                    let a = match &w.slots[c] { SW(cell) => lib(|| cell.load_full()), _ => bad!() };
                    w.slots[d] = A(a);
                    St::Ok(String::new())
                }
                ("store", 4) => {
                    let c = idx!(f[2]); let k = idx!(f[3]);
                    if !matches!(w.slots[c], SW(_)) || !matches!(w.slots[k], A(_)) || c == k { bad!(); }
                    if let A(a) = w.take(k) { if let SW(cell) = &w.slots[c] { lib(|| cell.store(a)); } }
                    St::Ok(String::new())
                }
                ("into", 3) => {
                    let c = idx!(f[2]);
                    if !matches!(w.slots[c], SW(_)) { bad!(); }
                    if let SW(cell) = w.take(c) { w.slots[c] = A(lib(|| cell.into_inner())); }
                    St::Ok(String::new())
                }
                _ => St::Bad,
            }
        }
        "dropAll" if n == 1 => {
            for i in 0..NSLOTS { let h = w.take(i); take_back_and_drop(h); }
            St::Ok(String::new())
        }
        _ => St::Bad,
    }
}

/// `UniqueArc<T>` -> `UniqueArc<dyn TrW>`: the `unsize` coercion when the crate is built with that feature; otherwise
/// (no coercion exists for UniqueArc) the same hand-over through the shareable Arc and back (count untouched either way)
#[cfg(feature = "t_unsize")]
fn uniq_to_dyn(a: UniqueArc<T>) -> UniqueArc<dyn TrW> {
    use unsize::{CoerceUnsize, Coercion};
    lib(|| a.unsize(Coercion!(to dyn TrW)))
}
#[cfg(not(feature = "t_unsize"))]
fn uniq_to_dyn(a: UniqueArc<T>) -> UniqueArc<dyn TrW> {
    lib(|| unsafe {
        let p = Arc::into_raw(a.shareable());
        let d: *const dyn TrW = p;
        match Arc::try_unique(Arc::from_raw(d)) { Ok(u) => u, Err(_) => unreachable!() }
    })
}

thread_local! { static CB_ACC: std::cell::RefCell<String> = const { std::cell::RefCell::new(String::new()) }; }

unsafe fn cb_arc_sized(a: &Arc<T>, acts: &[&str], acc: &mut String, wp: *mut World) {
    for act in acts {
        match act.split(':').next().unwrap() {
            "cnt" => acc.push_str(&format!("cnt={};", cnts(&[Arc::count(a), Arc::strong_count(a)]))),
            "read" => acc.push_str(&format!("val=[{}];", show_t(a))),
            "panic" => panic!("scripted callback panic"),
            "clone" => { let k: usize = act.split(':').nth(1).unwrap().parse().unwrap(); if k < NSLOTS && (&*wp).is_empty(k) { (&mut *wp).slots[k] = A(a.clone()); acc.push_str("cloned;") } else { acc.push_str("skip;") } }
            _ => acc.push_str("skip;"),
        }
    }
}
unsafe fn cb_arc_b(a: &Arc<TB>, acts: &[&str], acc: &mut String, wp: *mut World) {
    for act in acts {
        match act.split(':').next().unwrap() {
            "cnt" => acc.push_str(&format!("cnt={};", cnts(&[Arc::count(a), Arc::strong_count(a)]))),
            "read" => acc.push_str(&format!("val=[{}];", show_tb(a))),
            "panic" => panic!("scripted callback panic"),
            "clone" => { let k: usize = act.split(':').nth(1).unwrap().parse().unwrap(); if k < NSLOTS && (&*wp).is_empty(k) { (&mut *wp).slots[k] = AB(a.clone()); acc.push_str("cloned;") } else { acc.push_str("skip;") } }
            _ => acc.push_str("skip;"),
        }
    }
}

fn main() {
    quiet_panics();
    let mut w = World::new();
    let mut pending_fail: i64 = -1;
    let stdin = std::io::stdin();
    let out = std::io::stdout();
    let mut out = std::io::BufWriter::new(out.lock());
    for line in stdin.lock().lines() {
        let line = line.unwrap();
        let line = line.trim();
        if line.is_empty() || line.starts_with('#') { continue; }
        if line == "reset" {
            if nrec() + 4096 > MAXB {
                // the allocation record table is nearly full: stop before mis-measuring; the runner restarts a fresh
                // process at this history (exit status 5 = "not an observation")
                out.flush().unwrap();
                std::process::exit(5);
            }
            // forget (not drop) everything of the previous history: its blocks stay quarantined
            let old = std::mem::replace(&mut w, World::new());
            std::mem::forget(old);
            take_events();
            reset_clone_counter();
            clone_panic_at(-1);
            BLOCK_BASE.with(|b| b.set(nrec()));
            writeln!(out, "reset").unwrap();
            out.flush().unwrap();
            continue;
        }
        if let Some(k) = line.strip_prefix("failalloc ") {
            // fault injection: the k-th (0-based) allocation made inside the library during the NEXT op fails
            pending_fail = k.trim().parse::<i64>().unwrap_or(-1);
            writeln!(out, "failalloc armed").unwrap();
            out.flush().unwrap();
            continue;
        }
        let f: Vec<&str> = line.split(' ').collect();
        take_events();
        fail_alloc_at(pending_fail);
        pending_fail = -1;
        set_recording(false);
        let r = catch_unwind(AssertUnwindSafe(|| run_op(&mut w, &f)));
        set_recording(false);
        fail_alloc_at(-1);
        let (status, outs) = match r {
            Ok(St::Ok(o)) => ("ok".to_string(), o),
            Ok(St::Bad) => ("bad-op".to_string(), String::new()),
            Err(e) => (format!("panic:{}", panic_class(&*e)), CB_ACC.with(|c| std::mem::take(&mut *c.borrow_mut()))),
        };
        // number the Arc blocks allocated by this op (allocations with align >= 8), track the rest
        let evs_op = take_events();
        for e in &evs_op {
            match e {
                Ev::Alloc(i, _, al) => { if *al >= 8 { set_block(*i, w.next_block); w.next_block += 1; } else { w.aux_live += 1; } }
                Ev::Dealloc(i, _, _) => { if rec(*i).block < 0 { w.aux_live -= 1; } }
                _ => {}
            }
        }
        let probe: Vec<String> = (0..NSLOTS).filter_map(|i| match catch_unwind(AssertUnwindSafe(|| w.probe_slot(i))) { Ok(p) => p, Err(_) => Some(format!("s{}=PROBE-PANIC", i)) }).collect();
        let evs_probe = take_events();
        let mut evs: Vec<String> = Vec::new();
        for e in evs_op.iter().chain(evs_probe.iter()) {
            match e {
                Ev::Alloc(i, sz, al) => { if rec(*i).block >= 0 { evs.push(format!("alloc:b{}:{}:{}", rec(*i).block, sz, al)); } }
                Ev::Dealloc(i, sz, al) => { if rec(*i).block >= 0 { evs.push(format!("dealloc:b{}:{}:{}", rec(*i).block, sz, al)); } }
                Ev::DoubleFree(i, sz, al) => evs.push(format!("doublefree:b{}:{}:{}", rec(*i).block, sz, al)),
                Ev::Drop(id) => evs.push(format!("drop:{}", id)),
                Ev::DoubleDrop(id) => evs.push(format!("doubledrop:{}", id)),
                Ev::Clone(a, b) => evs.push(format!("clone:{}>{}", a, b)),
                Ev::BadRead(id) => evs.push(format!("badread:{}", id)),
            }
        }
        evs.sort();
        writeln!(out, "{} out={} ev=[{}] aux={} | {}", status, outs, evs.join(" "), w.aux_live, probe.join(" ")).unwrap();
        out.flush().unwrap();
    }
    std::mem::forget(w);
}

thread_local! { static BLOCK_BASE: Cell<usize> = const { Cell::new(0) }; }
