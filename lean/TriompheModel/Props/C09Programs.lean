import TriompheModel.Props.C09
import TriompheModel.WM.Ownership
/-!
# C09 (schedule half) stated about PROGRAMS

`C09_one_winner`, `C09_moved_out_never_destroyed` and `C09_after_all_former_sharers` with `Protocol` and `ViaBorn` supplied by
`WM/Ownership.lean` for every run of the operational ownership semantics.  What is left as hypothesis is the memory-model
fragment (`Consistent`, `CoRW`) and `Consume` itself — the description of the unwrapping gate in the execution: an Acquire load
through `h` that read 1, after which `h` is never released (the gate forgets it) and before which every clone taken from `h`
was made (the gate takes `h` by value).  A run that has such a gate, with every hypothesis below discharged, is
`WM/OwnershipExUnwrap.lean` (`ExUnwrap.ex_consume`, `ExUnwrap.ex_not_destroyed`).
-/
open Facts WM WM.Own Gates
namespace C09

variable {fenceOrd : Option MemOrd} (r : Run Generated.decOrd fenceOrd)
variable {hb : Ev (Fin r.final.kinds.length) → Ev (Fin r.final.kinds.length) → Prop}

/-- **at most one winner, in every program**: two unwrapping gates that both succeed on the same allocation were called
through the same handle -/
theorem C09_one_winner_in_every_program
    (hpo : ∀ x y, (lift x, lift y) ∈ r.final.po → hb x y)
    (hsw : ∀ x y, (lift x, lift y) ∈ r.final.sw → hb x y)
    (htrans : ∀ x y z, hb x y → hb y z → hb x z)
    (hc : Consistent (execOf r.final hb)) (hrw : CoRW (execOf r.final hb))
    {l₁ l₂ : Fin r.final.kinds.length} {h₁ h₂ : H} {o₁ o₂ : MemOrd} {rf₁ rf₂ : Option Nat}
    (c₁ : Consume (execOf r.final hb) l₁ h₁ o₁ rf₁) (c₂ : Consume (execOf r.final hb) l₂ h₂ o₂ rf₂) : h₁ = h₂ :=
  C09_one_winner hc (protocol_of_run r hb hpo hsw htrans) hrw (viaBorn_of_run r hb hpo hsw htrans) c₁ c₂

/-- **moved out ⇒ never destroyed, in every program** -/
theorem C09_moved_out_never_destroyed_in_every_program
    (hpo : ∀ x y, (lift x, lift y) ∈ r.final.po → hb x y)
    (hsw : ∀ x y, (lift x, lift y) ∈ r.final.sw → hb x y)
    (htrans : ∀ x y z, hb x y → hb y z → hb x z)
    (hc : Consistent (execOf r.final hb)) (hrw : CoRW (execOf r.final hb))
    {l : Fin r.final.kinds.length} {h : H} {o : MemOrd} {rf : Option Nat}
    (c : Consume (execOf r.final hb) l h o rf) : ¬ ∃ f k, (execOf r.final hb).kind f = .destroy k :=
  C09_moved_out_never_destroyed hc (protocol_of_run r hb hpo hsw htrans) hrw (viaBorn_of_run r hb hpo hsw htrans) c

/-- **the move-out is ordered after every former sharer's accesses, in every program** -/
theorem C09_after_all_former_sharers_in_every_program
    (hpo : ∀ x y, (lift x, lift y) ∈ r.final.po → hb x y)
    (hsw : ∀ x y, (lift x, lift y) ∈ r.final.sw → hb x y)
    (htrans : ∀ x y z, hb x y → hb y z → hb x z)
    (hc : Consistent (execOf r.final hb)) (hrw : CoRW (execOf r.final hb))
    {l : Fin r.final.kinds.length} {h : H} {o : MemOrd} {rf : Option Nat}
    (c : Consume (execOf r.final hb) l h o rf) :
    ∀ (a : Fin r.final.kinds.length) (h' : H), ((execOf r.final hb).kind a).via = some h' → h' ≠ h →
      (h' = 0 ∨ ∃ j, rf = some j ∧ h' ∈ kids (r.final.ops.take (j+1))) → hb (.oth a) (.oth l) :=
  C09_after_all_former_sharers hc (protocol_of_run r hb hpo hsw htrans) hrw (viaBorn_of_run r hb hpo hsw htrans) c

end C09
