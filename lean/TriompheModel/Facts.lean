/-!
Types of the *facts* that the translator (`/verif/extract`, Tie A) reads out of `/repo/src` on every
run and writes into `TriompheModel/Generated/*.lean`.  Nothing here is specific to the current
source: these are only the shapes of the tables.  Import-free (core Lean only).
-/
namespace Facts

/-- Memory orderings of Rust/C++11 atomics.  `unknown` = the translator could not classify the
argument (every obligation over it fails: it is neither release nor acquire). -/
inductive MemOrd | relaxed | acquire | release | acqrel | seqcst | unknown
deriving DecidableEq, Repr, Inhabited

def MemOrd.isRel : MemOrd → Bool
  | .release | .acqrel | .seqcst => true
  | _ => false
def MemOrd.isAcq : MemOrd → Bool
  | .acquire | .acqrel | .seqcst => true
  | _ => false

/-- What an atomic access site is. -/
inductive AtomicKind | load | store | fetchAdd | fetchSub | otherRmw | fence | newInit
deriving DecidableEq, Repr, Inhabited

def AtomicKind.isWrite : AtomicKind → Bool
  | .load | .newInit => false
  | _ => true

/-- One atomic access in the crate (outside `#[cfg(test)]`). -/
structure Site where
  file : String
  line : Nat
  fn_ : String            -- enclosing function, qualified by impl self type: "Arc::clone", "Arc::drop_inner"
  kind : AtomicKind
  ord : MemOrd
  debugOnly : Bool        -- inside `debug_assert*!`
deriving DecidableEq, Repr, Inhabited

inductive Cmp | eq | ne | lt | le | gt | ge | unknown
deriving DecidableEq, Repr, Inhabited

/-- a comparison of an observed count with a literal / constant -/
structure Guard where
  cmp : Cmp
  lit : Option Nat        -- literal compared with (`none` = not a literal)
deriving DecidableEq, Repr, Inhabited

/-- statements of `drop_inner`, in source order, as the translator classifies them -/
inductive DropStmt
  | decGuard        -- `if count.fetch_sub(1, o) != 1 { return; }`
  | fence           -- `count.load(o);` or `atomic::fence(o);`
  | destroy         -- `self.drop_slow()` / `Box::from_raw(..)`
  | other           -- anything else that touches memory
deriving DecidableEq, Repr, Inhabited

/-- the synchronisation between the decrement and destruction -/
inductive FenceKind | load (o : MemOrd) | fence (o : MemOrd)
deriving DecidableEq, Repr, Inhabited

def FenceKind.ord : FenceKind → MemOrd
  | .load o => o
  | .fence o => o

/-- A uniqueness gate: a public or crate-internal function whose success licenses mutable access or
a move out.  `loads` = orderings of every count load reachable through the crate-local call graph
(bodies of `debug_assert*` excluded); `viaIsUnique` = the verdict is produced by `Arc::is_unique`
(directly or through other gates). -/
structure Gate where
  name : String
  loads : List MemOrd
  viaIsUnique : Bool
deriving DecidableEq, Repr, Inhabited

/-- A handle kind's `Clone`/`Drop`/`clone_arc` body: touches no atomic itself and reaches
`Arc::clone` (resp. `Arc`'s drop) through the crate-local call graph. -/
structure Funnel where
  name : String          -- e.g. "ThinArc::clone"
  ownAtomics : Nat       -- atomic sites lexically inside the body
  reaches : Bool         -- reaches Arc::clone / Arc::drop_inner
deriving DecidableEq, Repr, Inhabited

/-- how `abort()` is implemented in a configuration -/
inductive AbortImpl | processAbort | doublePanic | singlePanic | unknown
deriving DecidableEq, Repr, Inhabited

/-- is it catchable by `catch_unwind`? -/
def AbortImpl.terminates : AbortImpl → Bool
  | .processAbort | .doublePanic => true
  | _ => false

/-- what the clone guard does when it fires -/
inductive GuardAction | callsAbort | panics | nothing | unknown
deriving DecidableEq, Repr, Inhabited

/-- `MAX_REFCOUNT` as the translator reads it -/
inductive MaxRefcount | isizeMax | usizeMax | lit (n : Nat) | unknown
deriving DecidableEq, Repr, Inhabited

end Facts
