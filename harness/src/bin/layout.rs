//! `layout` — correspondence harness of the layout slice (C05, C11, arithmetic half of C12).
//!
//! Line protocol: one case per stdin line, one canonical `key=value …` observation line per case.
//! Addresses are printed as offsets from the base of the Arc block as seen by the tracking
//! allocator; `alloc=`/`dealloc=` are the `(size,align)` the library passed to the global
//! allocator for that block.
//!
//!   shapes                                         the shape matrix (index, name, size, align, core?)
//!   sized  <P> <ctor> <rel> <seed>                 Arc<P>
//!   hs     <H> <T> <len> <ctor> <rel> <seed>       Arc<HeaderSlice<H,[T]>>
//!   thin   <H> <T> <len> <ctor> <rel> <seed>       ThinArc<H,T>
//!   slice  <T> <len> <ctor> <rel> <seed>           Arc<[T]>
//!   str    <H> <len> <ctor> <rel> <seed>           Arc<str> / Arc<HeaderSlice<H,str>>
//!   union  <A> <B> <which> <seed>                  ArcUnion<A,B>
//!   widths <P>                                     size_of every handle type and of Option<handle>
//!   ovf    <H> <T> <len> <kind>                    near-overflow length (run in a child process)
//!   tag <addr> | ext <n> <a> <m> <b> | arr <T> <n> raw usize / core::alloc::Layout arithmetic
#![allow(clippy::all)]
#![allow(unexpected_cfgs)]
#![allow(dead_code)]
use harness::{rec, set_recording, take_events, unrecorded, Ev};
use std::alloc::Layout;
use std::io::BufRead;
use std::mem::{align_of, align_of_val, size_of, size_of_val, transmute_copy, MaybeUninit};
use std::panic::{catch_unwind, AssertUnwindSafe};
use triomphe::{Arc, ArcBorrow, ArcUnion, ArcUnionBorrow, HeaderSlice, HeaderWithLength, OffsetArc, ThinArc, UniqueArc};

#[global_allocator]
static G: harness::Track = harness::Track;

// ------------------------------------------------------------------------------------------------
// shape matrix

/// object-safe view of a shape (for `dyn`)
pub trait Sh {
    fn dyn_ok(&self, seed: u32) -> bool;
    fn dyn_size(&self) -> usize;
}
pub trait Shape: Copy + Sized + Sh + PartialEq + 'static {
    const NAME: &'static str;
    fn make(seed: u32) -> Self;
    fn ok(&self, seed: u32) -> bool;
}
#[inline]
fn pat(seed: u32, i: usize) -> u8 { (seed.wrapping_mul(31).wrapping_add(i as u32 * 7).wrapping_add(1)) as u8 }

macro_rules! shape {
    ($name:ident, $size:literal, $align:literal) => {
        #[derive(Copy, PartialEq)]
        #[repr(C, align($align))]
        pub struct $name([u8; $size]);
        /// `Copy`, with a HAND-WRITTEN `Clone` that does not return a bit copy (every byte inverted): a constructor documented
        /// to copy (`T: Copy`: from_header_and_slice, From<&[T]>) or to move its input must not go through the user's `Clone`
        /// — if it does, the contents read back are not the input's
        impl Clone for $name {
            #[allow(clippy::expl_impl_clone_on_copy)]
            fn clone(&self) -> Self { let mut b = self.0; let mut i = 0; while i < $size { b[i] = !b[i]; i += 1; } $name(b) }
        }
        impl Shape for $name {
            const NAME: &'static str = stringify!($name);
            fn make(seed: u32) -> Self { let mut b = [0u8; $size]; let mut i = 0; while i < $size { b[i] = pat(seed, i); i += 1; } $name(b) }
            fn ok(&self, seed: u32) -> bool { let mut i = 0; while i < $size { if self.0[i] != pat(seed, i) { return false; } i += 1; } true }
        }
        impl Sh for $name {
            fn dyn_ok(&self, seed: u32) -> bool { self.ok(seed) }
            fn dyn_size(&self) -> usize { $size }
        }
    };
}

// sizes {0,1,2,3,4,6,8,12,16,24,32,40,64} x aligns {1,2,4,8,16,32,64}, size % align == 0.
// CORE shapes are paired with every shape; the others only with core shapes (unless built with
// `--cfg layout_full`, where every ordered pair is instantiated).
macro_rules! core_shapes { ($m:ident $(, $x:tt)*) => { $m!{ $($x,)* [
    (S0A1, 0, 1), (S1A1, 1, 1), (S3A1, 3, 1), (S2A2, 2, 2), (S6A2, 6, 2), (S4A4, 4, 4), (S12A4, 12, 4),
    (S8A8, 8, 8), (S24A8, 24, 8), (S16A16, 16, 16), (S0A32, 0, 32), (S64A64, 64, 64)
] } } }
macro_rules! other_shapes { ($m:ident $(, $x:tt)*) => { $m!{ $($x,)* [
    (S2A1, 2, 1), (S4A1, 4, 1), (S6A1, 6, 1), (S8A1, 8, 1), (S12A1, 12, 1), (S16A1, 16, 1), (S24A1, 24, 1),
    (S32A1, 32, 1), (S40A1, 40, 1), (S64A1, 64, 1),
    (S0A2, 0, 2), (S4A2, 4, 2), (S8A2, 8, 2), (S12A2, 12, 2), (S16A2, 16, 2), (S24A2, 24, 2), (S32A2, 32, 2),
    (S40A2, 40, 2), (S64A2, 64, 2),
    (S0A4, 0, 4), (S8A4, 8, 4), (S16A4, 16, 4), (S24A4, 24, 4), (S32A4, 32, 4), (S40A4, 40, 4), (S64A4, 64, 4),
    (S0A8, 0, 8), (S16A8, 16, 8), (S32A8, 32, 8), (S40A8, 40, 8), (S64A8, 64, 8),
    (S0A16, 0, 16), (S32A16, 32, 16), (S64A16, 64, 16),
    (S32A32, 32, 32), (S64A32, 64, 32),
    (S0A64, 0, 64)
] } } }
macro_rules! def_shapes { ([ $(($n:ident, $s:literal, $a:literal)),* ]) => { $( shape!($n, $s, $a); )* } }
core_shapes!(def_shapes);
other_shapes!(def_shapes);

pub trait Visit { type Out; fn visit<P: Shape>(self) -> Self::Out; }
macro_rules! def_with {
    ($fname:ident, $count:ident, [ $(($n:ident, $s:literal, $a:literal)),* ]) => {
        pub const $count: usize = [$($s as usize),*].len();
        /// run `v` at the `i`-th shape of this group
        pub fn $fname<V: Visit>(i: usize, v: V) -> Option<V::Out> {
            let mut k = 0usize;
            $( if i == k { return Some(v.visit::<$n>()); } k += 1; )*
            let _ = k;
            None
        }
    };
}
core_shapes!(def_with, with_core, NCORE);
other_shapes!(def_with, with_other, NOTHER);
pub const NSHAPES: usize = NCORE + NOTHER;
/// shapes are numbered core first, then the others
pub fn with_any<V: Visit>(i: usize, v: V) -> Option<V::Out> {
    if i < NCORE { with_core(i, v) } else { with_other(i - NCORE, v) }
}

pub trait PairFn { type Out; fn call<H: Shape, T: Shape>(self) -> Self::Out; }
struct SecondAll<H, F>(usize, F, std::marker::PhantomData<H>);
struct SecondCore<H, F>(usize, F, std::marker::PhantomData<H>);
struct Inner<H, T, F>(F, std::marker::PhantomData<(H, T)>);
struct FirstAll<F>(usize, F);
struct FirstCore<F>(usize, F);
struct CallT<H, F>(F, std::marker::PhantomData<H>);
impl<H: Shape, F: PairFn> Visit for CallT<H, F> { type Out = F::Out; fn visit<T: Shape>(self) -> F::Out { self.0.call::<H, T>() } }
impl<F: PairFn> Visit for FirstAll<F> {
    type Out = Option<F::Out>;
    fn visit<H: Shape>(self) -> Option<F::Out> { with_any(self.0, CallT::<H, F>(self.1, std::marker::PhantomData)) }
}
impl<F: PairFn> Visit for FirstCore<F> {
    type Out = Option<F::Out>;
    fn visit<H: Shape>(self) -> Option<F::Out> { with_core(self.0, CallT::<H, F>(self.1, std::marker::PhantomData)) }
}
/// is the ordered pair instantiated in this build?  default: every pair with a core member;
/// `--cfg layout_full`: every ordered pair; `--cfg layout_small`: core x core only
pub fn pair_ok(h: usize, t: usize) -> bool {
    if h >= NSHAPES || t >= NSHAPES { return false; }
    if cfg!(layout_full) { return true; }
    if cfg!(layout_small) { return h < NCORE && t < NCORE; }
    h < NCORE || t < NCORE
}
pub fn with_pair<F: PairFn>(h: usize, t: usize, f: F) -> Option<F::Out> {
    if !pair_ok(h, t) { return None; }
    #[cfg(layout_full)]
    { return with_any(h, FirstAll(t, f)).flatten(); }
    #[cfg(all(layout_small, not(layout_full)))]
    { return with_core(h, FirstCore(t, f)).flatten(); }
    #[cfg(not(any(layout_full, layout_small)))]
    {
        if h < NCORE { return with_core(h, FirstAll(t, f)).flatten(); }
        return with_other(h - NCORE, FirstCore(t, f)).flatten();
    }
}

// ------------------------------------------------------------------------------------------------
// observations

pub struct Obs { st: String, f: Vec<(&'static str, i128)>, s: Vec<(&'static str, String)> }
impl Obs {
    fn new() -> Self { Obs { st: String::from("ok"), f: Vec::with_capacity(96), s: Vec::with_capacity(8) } }
    fn num(&mut self, k: &'static str, v: i128) { unrecorded(|| self.f.push((k, v))) }
    fn b(&mut self, k: &'static str, v: bool) { self.num(k, v as i128) }
    fn lay(&mut self, k: &'static str, size: usize, align: usize) { unrecorded(|| self.s.push((k, format!("{},{}", size, align)))) }
    fn text(&mut self, k: &'static str, v: &str) { unrecorded(|| self.s.push((k, v.to_string()))) }
    fn line(&self) -> String {
        let mut out = format!("st={}", self.st);
        for (k, v) in &self.s { out.push_str(&format!(" {}={}", k, v)); }
        for (k, v) in &self.f { out.push_str(&format!(" {}={}", k, v)); }
        out
    }
}

/// per-case context: events seen so far, the Arc block
pub struct Cx { evs: Vec<Ev>, blk: Option<usize>, base: usize }
impl Cx {
    fn new() -> Self { Cx { evs: Vec::new(), blk: None, base: 0 } }
    fn pull(&mut self) { let e = take_events(); unrecorded(|| self.evs.extend(e)); }
    /// identify the Arc block: the last allocation of this case that is still live
    fn find_block(&mut self, o: &mut Obs) {
        self.pull();
        let mut blk = None;
        for e in &self.evs {
            if let Ev::Alloc(i, _, _) = e {
                let freed = self.evs.iter().any(|d| matches!(d, Ev::Dealloc(j, _, _) if j == i));
                if !freed { blk = Some(*i); }
            }
        }
        self.blk = blk;
        if let Some(i) = blk {
            let r = rec(i);
            self.base = r.addr;
            o.lay("alloc", r.size, r.align);
            o.num("bmod", (r.addr % r.align) as i128);
        } else {
            o.text("alloc", "none");
        }
    }
    fn off<X: ?Sized>(&self, p: *const X) -> i128 { (p as *const u8 as usize as i128) - (self.base as i128) }
    fn offu(&self, a: usize) -> i128 { (a as i128) - (self.base as i128) }
    /// summarise allocator events of the case
    fn finish(&mut self, o: &mut Obs) {
        self.pull();
        let mut ndealloc = 0;
        let mut dfree = 0;
        let mut aux = 0;
        let mut aux_bad = 0;
        let mut allocs = 0;
        for e in &self.evs {
            match e {
                Ev::Alloc(i, s, a) => {
                    allocs += 1;
                    if Some(*i) != self.blk {
                        aux += 1;
                        let good = self.evs.iter().filter(|d| matches!(d, Ev::Dealloc(j, s2, a2) if j == i && s2 == s && a2 == a)).count() == 1;
                        if !good { aux_bad += 1; }
                    }
                }
                Ev::Dealloc(i, s, a) => {
                    if Some(*i) == self.blk { ndealloc += 1; if ndealloc == 1 { o.lay("dealloc", *s, *a); } }
                }
                Ev::DoubleFree(..) => dfree += 1,
                _ => {}
            }
        }
        o.num("allocs", allocs);
        o.num("ndealloc", ndealloc);
        o.num("dfree", dfree);
        o.num("aux", aux);
        o.num("aux_bad", aux_bad);
    }
}

const PANIC_MARK: Ev = Ev::BadRead(u64::MAX);
/// pushed right before the library constructor is called: allocator events after it are the library's
const LIB_MARK: Ev = Ev::BadRead(u64::MAX - 1);
fn lib_mark() { harness::push_ev(LIB_MARK) }

fn bits_of<X>(x: &X) -> usize { assert!(size_of::<X>() >= size_of::<usize>()); unsafe { transmute_copy::<X, usize>(x) } }

/// what every `Arc<X>` shows: heap_ptr / as_ptr / Deref / ArcBorrow word / size & align of the value
fn probe_arc<X: ?Sized>(a: &Arc<X>, cx: &Cx, o: &mut Obs) {
    o.num("heap", cx.off(a.heap_ptr()));
    o.num("as_ptr", cx.off(a.as_ptr()));
    let d: &X = &**a;
    o.num("deref", cx.off(d as *const X));
    o.num("dmod", ((d as *const X as *const u8 as usize) % align_of_val(d)) as i128);
    let b = a.borrow_arc();
    o.num("borrow", cx.offu(bits_of(&b)));
    o.num("sov", size_of_val(d) as i128);
    o.num("aov", align_of_val(d) as i128);
    o.num("cnt", Arc::count(a) as i128);
    o.num("scnt", Arc::strong_count(a) as i128);
}

struct Case<'a> { ctor: &'a str, rel: &'a str, len: usize, seed: u32, which: usize }

fn bad(o: &mut Obs, what: &str) { o.st = format!("bad-case:{}", what); }
fn skip(o: &mut Obs, what: &str) { o.st = format!("skip:{}", what); }

// ------------------------------------------------------------------------------------------------
// Arc<P>, P sized

fn dyn_probe(a2: &Arc<dyn Sh>, cx: &Cx, o: &mut Obs, seed: u32) {
    o.num("dyn_rt_base", cx.off(a2.heap_ptr()));
    o.num("dyn_as_ptr", cx.off(a2.as_ptr()));
    let d: &dyn Sh = &**a2;
    o.num("dyn_deref", cx.off(d as *const dyn Sh));
    o.num("dyn_sov", size_of_val(d) as i128);
    o.num("dyn_aov", align_of_val(d) as i128);
    o.b("rt_ok", d.dyn_ok(seed) && d.dyn_size() == size_of_val(d));
    o.num("rt_cnt", Arc::count(a2) as i128);
}

fn run_sized<P: Shape>(c: &Case, o: &mut Obs) {
    let seed = c.seed;
    let mut cx = Cx::new();
    set_recording(true);
    lib_mark();
    let a: Arc<P> = match c.ctor {
        "new" => Arc::new(P::make(seed)),
        "from_t" => Arc::from(P::make(seed)),
        "frombox" => Arc::from(Box::new(P::make(seed))),
        "uniq_new" => UniqueArc::new(P::make(seed)).shareable(),
        "uniq_uninit" => {
            let mut u = UniqueArc::<P>::new_uninit();
            u.write(P::make(seed));
            unsafe { UniqueArc::assume_init(u) }.shareable()
        }
        "arc_uninit" => {
            let mut a = Arc::<MaybeUninit<P>>::new_uninit();
            unsafe { a.as_mut_ptr().write(MaybeUninit::new(P::make(seed))); a.assume_init() }
        }
        _ => { set_recording(false); return bad(o, "ctor"); }
    };
    cx.find_block(o);
    probe_arc(&a, &cx, o);
    o.b("cont", a.ok(seed));
    match c.rel {
        "drop" => drop(a),
        "clone" => {
            let b2 = a.clone();
            o.num("cl_as_ptr", cx.off(b2.as_ptr()));
            o.num("cl_cnt", Arc::count(&a) as i128);
            drop(a);
            o.num("cl_deref", cx.off(&*b2 as *const P));
            o.b("rt_ok", b2.ok(seed));
            o.num("rt_cnt", Arc::count(&b2) as i128);
            drop(b2);
        }
        "raw" => {
            let p = Arc::into_raw(a);
            o.num("into_raw", cx.off(p));
            let a2 = unsafe { Arc::from_raw(p) };
            o.num("rt_base", cx.off(a2.heap_ptr()));
            o.num("rt_cnt", Arc::count(&a2) as i128);
            o.b("rt_ok", a2.ok(seed));
            drop(a2);
        }
        "dyn" => {
            let p = Arc::into_raw(a);
            o.num("into_raw", cx.off(p));
            let a2: Arc<dyn Sh> = unsafe { Arc::from_raw(p as *const dyn Sh) };
            dyn_probe(&a2, &cx, o, seed);
            drop(a2);
        }
        "unsize" => {
            #[cfg(feature = "t_unsize")]
            {
                use unsize::{CoerceUnsize, Coercion};
                let a2: Arc<dyn Sh> = a.unsize(Coercion!(to dyn Sh));
                dyn_probe(&a2, &cx, o, seed);
                drop(a2);
            }
            #[cfg(not(feature = "t_unsize"))]
            { drop(a); skip(o, "unsize"); }
        }
        "offset" => {
            let oa: OffsetArc<P> = Arc::into_raw_offset(a);
            o.num("off_bits", cx.offu(bits_of(&oa)));
            o.num("off_deref", cx.off(&*oa as *const P));
            let b = oa.borrow_arc();
            o.num("off_borrow", cx.offu(bits_of(&b)));
            let oc = oa.clone();
            o.num("cl_cnt", OffsetArc::strong_count(&oa) as i128);
            o.num("cl_as_ptr", cx.offu(bits_of(&oc)));
            drop(oc);
            o.num("rt_cnt", OffsetArc::strong_count(&oa) as i128);
            o.b("rt_ok", oa.ok(seed));
            drop(oa);
        }
        "offset_back" => {
            let w = a.with_raw_offset_arc(|oa| bits_of(oa));
            o.num("off_with", cx.offu(w));
            let oa: OffsetArc<P> = Arc::into_raw_offset(a);
            o.num("off_bits", cx.offu(bits_of(&oa)));
            let a2 = Arc::from_raw_offset(oa);
            o.num("off_rt_base", cx.off(a2.heap_ptr()));
            o.num("rt_cnt", Arc::count(&a2) as i128);
            o.b("rt_ok", a2.ok(seed));
            drop(a2);
        }
        "try_unwrap" => match Arc::try_unwrap(a) {
            Ok(v) => o.b("rt_ok", v.ok(seed)),
            Err(_) => o.text("unwrap", "err"),
        },
        "into_inner" => match Arc::try_unique(a) {
            Ok(u) => { let v = UniqueArc::into_inner(u); o.b("rt_ok", v.ok(seed)); }
            Err(_) => o.text("unwrap", "err"),
        },
        "refcnt" => {
            #[cfg(feature = "t_arc_swap")]
            {
                use arc_swap::RefCnt;
                o.num("rc_as_ptr", cx.off(<Arc<P> as RefCnt>::as_ptr(&a)));
                // `inc`: one more owner, handed out as the same raw pointer `as_ptr` / `into_ptr` give
                let q = <Arc<P> as RefCnt>::inc(&a);
                o.num("rc_inc", cx.off(q));
                o.num("rc_inc_cnt", Arc::count(&a) as i128);
                if q == <Arc<P> as RefCnt>::as_ptr(&a) { drop(unsafe { <Arc<P> as RefCnt>::from_ptr(q) }); }
                let p = <Arc<P> as RefCnt>::into_ptr(a);
                o.num("rc_into", cx.off(p));
                let a2: Arc<P> = unsafe { <Arc<P> as RefCnt>::from_ptr(p) };
                o.num("rc_rt_base", cx.off(a2.heap_ptr()));
                o.num("rt_cnt", Arc::count(&a2) as i128);
                o.b("rt_ok", a2.ok(seed));
                drop(a2);
            }
            #[cfg(not(feature = "t_arc_swap"))]
            { drop(a); skip(o, "arc-swap"); }
        }
        "erase" | "erase_drop" => {
            let h: Arc<HeaderSlice<(), P>> = a.into();
            o.num("er_as_ptr", cx.off(h.as_ptr()));
            o.num("er_slice", cx.off(&h.slice as *const P));
            o.num("er_sov", size_of_val(&*h) as i128);
            o.num("er_heap", cx.off(h.heap_ptr()));
            o.b("rt_ok", h.slice.ok(seed));
            if c.rel == "erase" {
                let a2: Arc<P> = h.into();
                o.num("rt_base", cx.off(a2.heap_ptr()));
                o.num("rt_cnt", Arc::count(&a2) as i128);
                drop(a2);
            } else {
                o.num("rt_cnt", Arc::count(&h) as i128);
                drop(h);
            }
        }
        "borrow" => {
            let b: ArcBorrow<P> = a.borrow_arc();
            o.num("bo_deref", cx.off(&*b as *const P));
            let a2 = b.clone_arc();
            o.num("rt_base", cx.off(a2.heap_ptr()));
            o.num("cl_cnt", Arc::count(&a2) as i128);
            let b2 = unsafe { ArcBorrow::from_ptr(a.as_ptr()) };
            o.num("bo_from_ptr", cx.offu(bits_of(&b2)));
            o.num("bo_with", b2.with_arc(|x| cx.off(x.heap_ptr())));
            drop(a2);
            o.num("rt_cnt", Arc::count(&a) as i128);
            o.b("rt_ok", a.ok(seed));
            drop(a);
        }
        _ => { drop(a); set_recording(false); return bad(o, "rel"); }
    }
    set_recording(false);
    cx.finish(o);
}
struct SizedV<'a, 'b>(&'a Case<'a>, &'b mut Obs);
impl<'a, 'b> Visit for SizedV<'a, 'b> { type Out = (); fn visit<P: Shape>(self) { run_sized::<P>(self.0, self.1) } }

// ------------------------------------------------------------------------------------------------
// Arc<HeaderSlice<H, [T]>>

fn items<T: Shape>(len: usize, seed: u32) -> Vec<T> { (0..len).map(|i| T::make(seed.wrapping_add(1 + i as u32))).collect() }
fn items_ok<T: Shape>(s: &[T], seed: u32) -> bool { s.iter().enumerate().all(|(i, x)| x.ok(seed.wrapping_add(1 + i as u32))) }

fn probe_hs<H: Shape, T: Shape>(a: &Arc<HeaderSlice<H, [T]>>, cx: &Cx, o: &mut Obs, seed: u32) {
    probe_arc(a, cx, o);
    o.num("hdr", cx.off(&a.header as *const H));
    o.num("hmod", ((&a.header as *const H as usize) % align_of::<H>()) as i128);
    o.num("slice", cx.off(a.slice.as_ptr()));
    o.num("smod", ((a.slice.as_ptr() as usize) % align_of::<T>()) as i128);
    let n = a.slice.len();
    o.num("slen", n as i128);
    if n > 0 {
        o.num("e0", cx.off(&a.slice[0] as *const T));
        o.num("elast", cx.off(&a.slice[n - 1] as *const T));
    }
    o.b("cont", a.header.ok(seed) && items_ok(&a.slice, seed));
}

fn run_hs<H: Shape, T: Shape>(c: &Case, o: &mut Obs) {
    let (seed, len) = (c.seed, c.len);
    let mut cx = Cx::new();
    set_recording(true);
    let it = items::<T>(len, seed);
    let itc: Vec<_> = if c.ctor == "vec" { it.iter().map(|x| *x).collect() } else { Vec::new() };
    lib_mark();
    let a: Arc<HeaderSlice<H, [T]>> = match c.ctor {
        "iter" => Arc::from_header_and_iter(H::make(seed), it.iter().copied()),
        "slice" => Arc::from_header_and_slice(H::make(seed), &it),
        "vec" => Arc::from_header_and_vec(H::make(seed), itc),
        "uninit" => {
            let mut u = UniqueArc::<HeaderSlice<H, [MaybeUninit<T>]>>::from_header_and_uninit_slice(H::make(seed), len);
            for i in 0..len { u.slice[i] = MaybeUninit::new(it[i]); }
            unsafe { u.assume_init_slice_with_header() }.shareable()
        }
        _ => { set_recording(false); return bad(o, "ctor"); }
    };
    drop(it);
    cx.find_block(o);
    probe_hs(&a, &cx, o, seed);
    match c.rel {
        "drop" => drop(a),
        "clone" => {
            let b2 = a.clone();
            o.num("cl_as_ptr", cx.off(b2.as_ptr()));
            o.num("cl_cnt", Arc::count(&a) as i128);
            drop(a);
            o.b("rt_ok", b2.header.ok(seed) && items_ok(&b2.slice, seed));
            o.num("rt_cnt", Arc::count(&b2) as i128);
            drop(b2);
        }
        "raw" => {
            let p: *const HeaderSlice<H, [T]> = Arc::into_raw(a);
            o.num("into_raw", cx.off(p));
            let a2 = unsafe { Arc::from_raw(p) };
            o.num("rt_base", cx.off(a2.heap_ptr()));
            o.num("rt_cnt", Arc::count(&a2) as i128);
            o.num("rt_slen", a2.slice.len() as i128);
            o.b("rt_ok", a2.header.ok(seed) && items_ok(&a2.slice, seed));
            drop(a2);
        }
        "unique" => match Arc::try_unique(a) {
            Ok(u) => { o.b("rt_ok", u.header.ok(seed) && items_ok(&u.slice, seed)); drop(u); }
            Err(_) => o.text("unwrap", "err"),
        },
        _ => { drop(a); set_recording(false); return bad(o, "rel"); }
    }
    set_recording(false);
    cx.finish(o);
}
struct HsF<'a, 'b>(&'a Case<'a>, &'b mut Obs);
impl<'a, 'b> PairFn for HsF<'a, 'b> { type Out = (); fn call<H: Shape, T: Shape>(self) { run_hs::<H, T>(self.0, self.1) } }

// ------------------------------------------------------------------------------------------------
// ThinArc<H, T>

fn thin_ok<H: Shape, T: Shape>(t: &ThinArc<H, T>, seed: u32) -> bool { t.header.header.ok(seed) && items_ok(&t.slice, seed) }

fn run_thin<H: Shape, T: Shape>(c: &Case, o: &mut Obs) {
    let (seed, len) = (c.seed, c.len);
    let mut cx = Cx::new();
    set_recording(true);
    let it = items::<T>(len, seed);
    lib_mark();
    let t: ThinArc<H, T> = match c.ctor {
        "slice" => ThinArc::from_header_and_slice(H::make(seed), &it),
        "iter" => ThinArc::from_header_and_iter(H::make(seed), it.iter().copied()),
        "fat_slice" => Arc::into_thin(Arc::from_header_and_slice(HeaderWithLength::new(H::make(seed), len), &it)),
        // a fat Arc whose RECORDED length disagrees with its slice length: `into_thin` must refuse with a panic
        // (reported by the main loop as st=panic:length-mismatch, with `leaked=` if the refused Arc was not released)
        "fat_bad" => Arc::into_thin(Arc::from_header_and_slice(HeaderWithLength::new(H::make(seed), len + 1), &it)),
        "fat_bad_short" if len > 0 => Arc::into_thin(Arc::from_header_and_slice(HeaderWithLength::new(H::make(seed), len - 1), &it)),
        "fat_bad_short" => Arc::into_thin(Arc::from_header_and_slice(HeaderWithLength::new(H::make(seed), 7), &it)),
        _ => { set_recording(false); return bad(o, "ctor"); }
    };
    drop(it);
    cx.find_block(o);
    o.num("t_ptr", cx.off(t.ptr()));
    o.num("t_heap", cx.off(t.heap_ptr()));
    o.num("t_as_ptr", cx.off(t.as_ptr()));
    {
        let d: &HeaderSlice<HeaderWithLength<H>, [T]> = &*t;
        o.num("deref", cx.off(d as *const _));
        o.num("dmod", ((d as *const _ as *const u8 as usize) % align_of_val(d)) as i128);
        o.num("sov", size_of_val(d) as i128);
        o.num("aov", align_of_val(d) as i128);
        o.num("hdr", cx.off(&d.header.header as *const H));
        o.num("hmod", ((&d.header.header as *const H as usize) % align_of::<H>()) as i128);
        o.num("lenf", cx.off(&d.header.length as *const usize));
        o.num("lenv", d.header.length as i128);
        o.num("slice", cx.off(d.slice.as_ptr()));
        o.num("smod", ((d.slice.as_ptr() as usize) % align_of::<T>()) as i128);
        let n = d.slice.len();
        o.num("slen", n as i128);
        if n > 0 {
            o.num("e0", cx.off(&d.slice[0] as *const T));
            o.num("elast", cx.off(&d.slice[n - 1] as *const T));
        }
    }
    o.num("hwl_size", size_of::<HeaderWithLength<H>>() as i128);
    o.num("hwl_align", align_of::<HeaderWithLength<H>>() as i128);
    o.num("hwl_lenoff", std::mem::offset_of!(HeaderWithLength<H>, length) as i128);
    o.num("fat_as_ptr", t.with_arc(|a| cx.off(a.as_ptr())));
    o.num("fat_heap", t.with_arc(|a| cx.off(a.heap_ptr())));
    o.num("cnt", ThinArc::strong_count(&t) as i128);
    o.b("cont", thin_ok(&t, seed));
    match c.rel {
        "drop" => drop(t),
        "clone" => {
            let t2 = t.clone();
            o.num("cl_as_ptr", cx.off(t2.ptr()));
            o.num("cl_cnt", ThinArc::strong_count(&t) as i128);
            drop(t);
            o.b("rt_ok", thin_ok(&t2, seed));
            o.num("rt_cnt", ThinArc::strong_count(&t2) as i128);
            drop(t2);
        }
        "from_thin" => {
            let a = Arc::from_thin(t);
            o.num("ft_heap", cx.off(a.heap_ptr()));
            o.num("ft_as_ptr", cx.off(a.as_ptr()));
            o.num("rt_slen", a.slice.len() as i128);
            o.num("rt_cnt", Arc::count(&a) as i128);
            o.b("rt_ok", a.header.header.ok(seed) && items_ok(&a.slice, seed));
            drop(a);
        }
        "protected" => {
            let a = Arc::protected_from_thin(t);
            o.num("ft_heap", cx.off(a.heap_ptr()));
            o.num("ft_as_ptr", cx.off(a.as_ptr()));
            let t2 = Arc::protected_into_thin(a);
            o.num("rt_base", cx.off(t2.ptr()));
            o.num("rt_cnt", ThinArc::strong_count(&t2) as i128);
            o.b("rt_ok", thin_ok(&t2, seed));
            drop(t2);
        }
        "raw" => {
            let p = t.into_raw();
            o.num("t_into_raw", cx.off(p));
            let t2 = unsafe { ThinArc::<H, T>::from_raw(p) };
            o.num("rt_base", cx.off(t2.ptr()));
            o.num("rt_cnt", ThinArc::strong_count(&t2) as i128);
            o.b("rt_ok", thin_ok(&t2, seed));
            drop(t2);
        }
        "refcnt" => {
            #[cfg(feature = "t_arc_swap")]
            {
                use arc_swap::RefCnt;
                o.num("rc_as_ptr", cx.off(<ThinArc<H, T> as RefCnt>::as_ptr(&t)));
                let q = <ThinArc<H, T> as RefCnt>::inc(&t);
                o.num("rc_inc", cx.off(q));
                o.num("rc_inc_cnt", ThinArc::strong_count(&t) as i128);
                if q == <ThinArc<H, T> as RefCnt>::as_ptr(&t) { drop(unsafe { <ThinArc<H, T> as RefCnt>::from_ptr(q) }); }
                let p = <ThinArc<H, T> as RefCnt>::into_ptr(t);
                o.num("rc_into", cx.off(p));
                let t2: ThinArc<H, T> = unsafe { <ThinArc<H, T> as RefCnt>::from_ptr(p) };
                o.num("rc_rt_base", cx.off(t2.ptr()));
                o.num("rt_cnt", ThinArc::strong_count(&t2) as i128);
                o.b("rt_ok", thin_ok(&t2, seed));
                drop(t2);
            }
            #[cfg(not(feature = "t_arc_swap"))]
            { drop(t); skip(o, "arc-swap"); }
        }
        _ => { drop(t); set_recording(false); return bad(o, "rel"); }
    }
    set_recording(false);
    cx.finish(o);
}
struct ThinF<'a, 'b>(&'a Case<'a>, &'b mut Obs);
impl<'a, 'b> PairFn for ThinF<'a, 'b> { type Out = (); fn call<H: Shape, T: Shape>(self) { run_thin::<H, T>(self.0, self.1) } }

// ------------------------------------------------------------------------------------------------
// Arc<[T]>

fn probe_slice<T: Shape>(a: &Arc<[T]>, cx: &Cx, o: &mut Obs, seed: u32) {
    probe_arc(a, cx, o);
    o.num("slice", cx.off(a.as_ref().as_ptr()));
    o.num("smod", ((a.as_ref().as_ptr() as usize) % align_of::<T>()) as i128);
    let n = a.len();
    o.num("slen", n as i128);
    if n > 0 {
        o.num("e0", cx.off(&a[0] as *const T));
        o.num("elast", cx.off(&a[n - 1] as *const T));
    }
    o.b("cont", items_ok(a, seed));
}

fn run_slice<T: Shape>(c: &Case, o: &mut Obs) {
    let (seed, len) = (c.seed, c.len);
    let mut cx = Cx::new();
    set_recording(true);
    let it = items::<T>(len, seed);
    let itc: Vec<_> = if c.ctor == "from_vec" { it.iter().map(|x| *x).collect() } else { Vec::new() };
    lib_mark();
    let a: Arc<[T]> = match c.ctor {
        "from_ref" => Arc::from(&it[..]),
        "from_vec" => Arc::from(itc),
        "iter_exact" => it.iter().copied().collect::<Arc<[T]>>(),
        "iter_unknown" => it.iter().copied().filter(|_| true).collect::<Arc<[T]>>(),
        "uninit" => {
            let mut a = Arc::<[MaybeUninit<T>]>::new_uninit_slice(len);
            { let s = Arc::get_mut(&mut a).unwrap(); for i in 0..len { s[i] = MaybeUninit::new(it[i]); } }
            unsafe { a.assume_init() }
        }
        "uniq_uninit" => {
            let mut u = UniqueArc::<[MaybeUninit<T>]>::new_uninit_slice(len);
            for i in 0..len { u[i] = MaybeUninit::new(it[i]); }
            unsafe { UniqueArc::assume_init_slice(u) }.shareable()
        }
        "array3" => {
            #[cfg(feature = "t_unsize")]
            {
                use unsize::{CoerceUnsize, Coercion};
                if len != 3 { set_recording(false); return bad(o, "array3 needs len 3"); }
                let a3: Arc<[T; 3]> = Arc::new([it[0], it[1], it[2]]);
                a3.unsize(Coercion::to_slice())
            }
            #[cfg(not(feature = "t_unsize"))]
            { set_recording(false); return skip(o, "unsize"); }
        }
        _ => { set_recording(false); return bad(o, "ctor"); }
    };
    drop(it);
    cx.find_block(o);
    probe_slice(&a, &cx, o, seed);
    match c.rel {
        "drop" => drop(a),
        "clone" => {
            let b2 = a.clone();
            o.num("cl_as_ptr", cx.off(b2.as_ptr()));
            o.num("cl_cnt", Arc::count(&a) as i128);
            drop(a);
            o.b("rt_ok", items_ok(&b2, seed));
            o.num("rt_cnt", Arc::count(&b2) as i128);
            drop(b2);
        }
        "raw" => {
            let p: *const [T] = Arc::into_raw(a);
            o.num("into_raw", cx.off(p));
            let a2 = unsafe { Arc::from_raw_slice(p) };
            o.num("rt_base", cx.off(a2.heap_ptr()));
            o.num("rt_cnt", Arc::count(&a2) as i128);
            o.num("rt_slen", a2.len() as i128);
            o.b("rt_ok", items_ok(&a2, seed));
            drop(a2);
        }
        "erase" | "erase_drop" => {
            let h: Arc<HeaderSlice<(), [T]>> = a.into();
            o.num("er_as_ptr", cx.off(h.as_ptr()));
            o.num("er_slice", cx.off(h.slice.as_ptr()));
            o.num("er_sov", size_of_val(&*h) as i128);
            o.num("er_heap", cx.off(h.heap_ptr()));
            o.num("rt_slen", h.slice.len() as i128);
            o.b("rt_ok", items_ok(&h.slice, seed));
            if c.rel == "erase" {
                let a2: Arc<[T]> = h.into();
                o.num("rt_base", cx.off(a2.heap_ptr()));
                o.num("rt_cnt", Arc::count(&a2) as i128);
                drop(a2);
            } else {
                o.num("rt_cnt", Arc::count(&h) as i128);
                drop(h);
            }
        }
        _ => { drop(a); set_recording(false); return bad(o, "rel"); }
    }
    set_recording(false);
    cx.finish(o);
}
struct SliceV<'a, 'b>(&'a Case<'a>, &'b mut Obs);
impl<'a, 'b> Visit for SliceV<'a, 'b> { type Out = (); fn visit<T: Shape>(self) { run_slice::<T>(self.0, self.1) } }

// ------------------------------------------------------------------------------------------------
// Arc<str>, Arc<HeaderSlice<H, str>>

fn text(len: usize, seed: u32) -> String { (0..len).map(|i| (b'a' + ((seed as usize + i * 5) % 26) as u8) as char).collect() }

fn run_str<H: Shape>(c: &Case, o: &mut Obs) {
    let (seed, len) = (c.seed, c.len);
    let mut cx = Cx::new();
    set_recording(true);
    let s = text(len, seed);
    let sc = if c.ctor == "from_string" { s.clone() } else { String::new() };
    lib_mark();
    if c.ctor == "hdr_str" {
        let a: Arc<HeaderSlice<H, str>> = Arc::from_header_and_str(H::make(seed), &s);
        cx.find_block(o);
        probe_arc(&a, &cx, o);
        o.num("hdr", cx.off(&a.header as *const H));
        o.num("hmod", ((&a.header as *const H as usize) % align_of::<H>()) as i128);
        o.num("slice", cx.off(a.slice.as_ptr()));
        o.num("slen", a.slice.len() as i128);
        o.b("cont", a.header.ok(seed) && a.slice == s[..]);
        match c.rel {
            "drop" => drop(a),
            "raw" => {
                let p: *const HeaderSlice<H, str> = Arc::into_raw(a);
                o.num("into_raw", cx.off(p));
                let a2 = unsafe { Arc::from_raw(p) };
                o.num("rt_base", cx.off(a2.heap_ptr()));
                o.num("rt_cnt", Arc::count(&a2) as i128);
                o.num("rt_slen", a2.slice.len() as i128);
                o.b("rt_ok", a2.header.ok(seed) && a2.slice == s[..]);
                drop(a2);
            }
            _ => { drop(a); set_recording(false); return bad(o, "rel"); }
        }
    } else {
        let a: Arc<str> = match c.ctor {
            "from_str" => Arc::from(&s[..]),
            "from_string" => Arc::from(sc),
            _ => { set_recording(false); return bad(o, "ctor"); }
        };
        cx.find_block(o);
        probe_arc(&a, &cx, o);
        o.num("slice", cx.off(a.as_ref().as_ptr()));
        o.num("slen", a.len() as i128);
        o.b("cont", *a == s[..]);
        match c.rel {
            "drop" => drop(a),
            "raw" => {
                let p: *const str = Arc::into_raw(a);
                o.num("into_raw", cx.off(p));
                let a2: Arc<str> = unsafe { Arc::from_raw(p) };
                o.num("rt_base", cx.off(a2.heap_ptr()));
                o.num("rt_cnt", Arc::count(&a2) as i128);
                o.num("rt_slen", a2.len() as i128);
                o.b("rt_ok", *a2 == s[..]);
                drop(a2);
            }
            "erase" | "erase_drop" => {
                let h: Arc<HeaderSlice<(), str>> = a.into();
                o.num("er_as_ptr", cx.off(h.as_ptr()));
                o.num("er_slice", cx.off(h.slice.as_ptr()));
                o.num("er_sov", size_of_val(&*h) as i128);
                o.num("er_heap", cx.off(h.heap_ptr()));
                o.b("rt_ok", h.slice == s[..]);
                if c.rel == "erase" {
                    let a2: Arc<str> = h.into();
                    o.num("rt_base", cx.off(a2.heap_ptr()));
                    o.num("rt_cnt", Arc::count(&a2) as i128);
                    drop(a2);
                } else {
                    o.num("rt_cnt", Arc::count(&h) as i128);
                    drop(h);
                }
            }
            _ => { drop(a); set_recording(false); return bad(o, "rel"); }
        }
    }
    drop(s);
    set_recording(false);
    cx.finish(o);
}
struct StrV<'a, 'b>(&'a Case<'a>, &'b mut Obs);
impl<'a, 'b> Visit for StrV<'a, 'b> { type Out = (); fn visit<H: Shape>(self) { run_str::<H>(self.0, self.1) } }

// ------------------------------------------------------------------------------------------------
// ArcUnion<A, B>

fn run_union<A: Shape, B: Shape>(c: &Case, o: &mut Obs) {
    let seed = c.seed;
    // equal types: a First and a Second union over the SAME allocation must still be told apart
    if core::any::TypeId::of::<A>() == core::any::TypeId::of::<B>() {
        let base: Arc<A> = Arc::new(A::make(seed));
        let dup = core::mem::ManuallyDrop::new(base.clone());
        let as_b: Arc<B> = unsafe { core::mem::transmute_copy::<Arc<A>, Arc<B>>(&*dup) };
        let f = ArcUnion::<A, B>::from_first(base);
        let s = ArcUnion::<A, B>::from_second(as_b);
        o.b("x_eq", f == s);
        o.b("x_ne", f != s);
        o.b("x_ptr_eq", ArcUnion::ptr_eq(&f, &s));
        o.b("x_variants", f.is_first() && s.is_second());
        o.num("x_cnt", ArcUnion::strong_count(&f) as i128);
    }
    let mut cx = Cx::new();
    set_recording(true);
    lib_mark();
    let u: ArcUnion<A, B> = if c.which == 1 {
        let a = Arc::new(A::make(seed));
        cx.find_block(o);
        o.num("deref", cx.off(&*a as *const A));
        o.num("sov", size_of::<A>() as i128);
        ArcUnion::from_first(a)
    } else {
        let b = Arc::new(B::make(seed));
        cx.find_block(o);
        o.num("deref", cx.off(&*b as *const B));
        o.num("sov", size_of::<B>() as i128);
        ArcUnion::from_second(b)
    };
    let w = bits_of(&u);
    o.num("bits", cx.offu(w));
    o.num("low", (w & 1) as i128);
    o.b("first", u.is_first());
    o.b("second", u.is_second());
    o.b("as_first", u.as_first().is_some());
    o.b("as_second", u.as_second().is_some());
    match u.borrow() {
        ArcUnionBorrow::First(x) => {
            o.num("var", 1);
            o.num("borrow", cx.offu(bits_of(&x)));
            o.num("bo_deref", cx.off(&*x as *const A));
            o.b("cont", x.ok(seed));
        }
        ArcUnionBorrow::Second(x) => {
            o.num("var", 2);
            o.num("borrow", cx.offu(bits_of(&x)));
            o.num("bo_deref", cx.off(&*x as *const B));
            o.b("cont", x.ok(seed));
        }
    }
    o.num("cnt", ArcUnion::strong_count(&u) as i128);
    let u2 = u.clone();
    o.num("cl_bits", cx.offu(bits_of(&u2)));
    o.num("cl_cnt", ArcUnion::strong_count(&u) as i128);
    o.b("cl_ptr_eq", ArcUnion::ptr_eq(&u, &u2));
    drop(u2);
    o.num("rt_cnt", ArcUnion::strong_count(&u) as i128);
    o.num("usz", size_of::<ArcUnion<A, B>>() as i128);
    o.num("uosz", size_of::<Option<ArcUnion<A, B>>>() as i128);
    drop(u);
    set_recording(false);
    cx.finish(o);
}
struct UnionF<'a, 'b>(&'a Case<'a>, &'b mut Obs);
impl<'a, 'b> PairFn for UnionF<'a, 'b> { type Out = (); fn call<A: Shape, B: Shape>(self) { run_union::<A, B>(self.0, self.1) } }

// ------------------------------------------------------------------------------------------------
// widths

fn run_widths<P: Shape>(o: &mut Obs) {
    macro_rules! w { ($k:literal, $ok:literal, $t:ty) => { o.num($k, size_of::<$t>() as i128); o.num($ok, size_of::<Option<$t>>() as i128); } }
    w!("arc", "o_arc", Arc<P>);
    w!("uniq", "o_uniq", UniqueArc<P>);
    w!("offset", "o_offset", OffsetArc<P>);
    w!("thin", "o_thin", ThinArc<P, P>);
    w!("borrow", "o_borrow", ArcBorrow<'static, P>);
    w!("union", "o_union", ArcUnion<P, S3A1>);
    w!("arc_hs_sized", "o_arc_hs_sized", Arc<HeaderSlice<P, P>>);
    w!("arc_slice", "o_arc_slice", Arc<[P]>);
    w!("arc_str", "o_arc_str", Arc<str>);
    w!("arc_dyn", "o_arc_dyn", Arc<dyn Sh>);
    w!("arc_hs", "o_arc_hs", Arc<HeaderSlice<P, [P]>>);
    w!("uniq_slice", "o_uniq_slice", UniqueArc<[P]>);
    w!("borrow_slice", "o_borrow_slice", ArcBorrow<'static, [P]>);
    w!("borrow_dyn", "o_borrow_dyn", ArcBorrow<'static, dyn Sh>);
    o.num("word", size_of::<usize>() as i128);
    o.num("al_arc", align_of::<Arc<P>>() as i128);
    o.num("al_thin", align_of::<ThinArc<P, P>>() as i128);
    o.num("al_union", align_of::<ArcUnion<P, S3A1>>() as i128);
}
struct WidthsV<'b>(&'b mut Obs);
impl<'b> Visit for WidthsV<'b> { type Out = (); fn visit<P: Shape>(self) { run_widths::<P>(self.0) } }

// ------------------------------------------------------------------------------------------------
// near-overflow lengths (child process; a refusal is a panic before any allocation)

struct Huge<T>(usize, std::marker::PhantomData<T>);
impl<T: Shape> Iterator for Huge<T> {
    type Item = T;
    fn next(&mut self) -> Option<T> {
        // the library asked for the first element: it has allocated.  Report the block and stop —
        // writing `len` elements is impossible.
        set_recording(false);
        let evs = take_events();
        let mut line = String::from("st=wrote");
        let mut n = 0;
        for e in &evs { if let Ev::Alloc(_, s, a) = e { line.push_str(&format!(" alloc={},{}", s, a)); n += 1; } }
        println!("{} allocs={}", line, n);
        std::process::exit(0);
    }
    fn size_hint(&self) -> (usize, Option<usize>) { (self.0, Some(self.0)) }
}
impl<T: Shape> ExactSizeIterator for Huge<T> {}

fn run_ovf<H: Shape, T: Shape>(c: &Case, o: &mut Obs) {
    let len = c.len;
    let mut cx = Cx::new();
    set_recording(true);
    lib_mark();
    match c.ctor {
        "uninit" => {
            let u = UniqueArc::<HeaderSlice<H, [MaybeUninit<T>]>>::from_header_and_uninit_slice(H::make(1), len);
            cx.find_block(o);
            o.num("sov", size_of_val(&*u) as i128);
            o.num("slen", u.slice.len() as i128);
            drop(u);
        }
        "slice_uninit" => {
            let a = Arc::<[MaybeUninit<T>]>::new_uninit_slice(len);
            cx.find_block(o);
            o.num("sov", size_of_val(&*a) as i128);
            o.num("slen", a.len() as i128);
            drop(a);
        }
        "iter" => {
            let a = Arc::from_header_and_iter(H::make(1), Huge::<T>(len, std::marker::PhantomData));
            cx.find_block(o);
            drop(a);
        }
        "thin_iter" => {
            let t = ThinArc::from_header_and_iter(H::make(1), Huge::<T>(len, std::marker::PhantomData));
            cx.find_block(o);
            drop(t);
        }
        _ => { set_recording(false); return bad(o, "kind"); }
    }
    set_recording(false);
    cx.finish(o);
}
struct OvfF<'a, 'b>(&'a Case<'a>, &'b mut Obs);
impl<'a, 'b> PairFn for OvfF<'a, 'b> { type Out = (); fn call<H: Shape, T: Shape>(self) { run_ovf::<H, T>(self.0, self.1) } }

// ------------------------------------------------------------------------------------------------
// raw arithmetic: what core's Layout and usize ops do (cross-check of M2's transcription)

fn run_tag(a: usize, o: &mut Obs) {
    o.num("or1", (a | 0x1) as i128);
    o.num("clear", (a & !0x1) as i128);
    o.b("even", a & 0x1 == 0);
    o.num("or1_clear", ((a | 0x1) & !0x1) as i128);
    o.b("or1_even", (a | 0x1) & 0x1 == 0);
}
fn run_ext(n: usize, a: usize, m: usize, b: usize, o: &mut Obs) {
    match (Layout::from_size_align(n, a), Layout::from_size_align(m, b)) {
        (Ok(l), Ok(nx)) => {
            match l.extend(nx) {
                Ok((x, off)) => { o.text("ext", &format!("{},{},{}", x.size(), x.align(), off)); o.num("extpad", x.pad_to_align().size() as i128); }
                Err(_) => o.text("ext", "err"),
            }
            o.num("pad", l.pad_to_align().size() as i128);
            // `padding_needed_for` is unstable; recompute it the way core does
            o.num("pnf", ((l.size().wrapping_add(b).wrapping_sub(1) & !b.wrapping_sub(1)).wrapping_sub(l.size())) as i128);
            o.text("mk", "ok");
        }
        (Err(_), _) => o.text("mk", "err"),
        (_, Err(_)) => o.text("mk2", "err"),
    }
}
struct ArrV<'b>(usize, &'b mut Obs);
impl<'b> Visit for ArrV<'b> {
    type Out = ();
    fn visit<T: Shape>(self) {
        match Layout::array::<T>(self.0) {
            Ok(l) => self.1.text("arr", &format!("{},{}", l.size(), l.align())),
            Err(_) => self.1.text("arr", "err"),
        }
    }
}

// ------------------------------------------------------------------------------------------------
struct InfoV;
impl Visit for InfoV { type Out = (&'static str, usize, usize); fn visit<P: Shape>(self) -> Self::Out { (P::NAME, size_of::<P>(), align_of::<P>()) } }

fn dispatch(w: &[&str], o: &mut Obs) {
    let n = |i: usize| -> usize { w.get(i).and_then(|s| s.parse::<usize>().ok()).unwrap_or(usize::MAX) };
    let s = |i: usize| -> &str { w.get(i).copied().unwrap_or("") };
    match s(0) {
        "sized" => {
            let c = Case { ctor: s(2), rel: s(3), len: 0, seed: n(4) as u32, which: 0 };
            if with_any(n(1), SizedV(&c, o)).is_none() { bad(o, "shape"); }
        }
        "hs" => {
            let c = Case { ctor: s(4), rel: s(5), len: n(3), seed: n(6) as u32, which: 0 };
            if !pair_ok(n(1), n(2)) { return skip(o, "pair-not-in-build"); }
            with_pair(n(1), n(2), HsF(&c, o));
        }
        "thin" => {
            let c = Case { ctor: s(4), rel: s(5), len: n(3), seed: n(6) as u32, which: 0 };
            if !pair_ok(n(1), n(2)) { return skip(o, "pair-not-in-build"); }
            with_pair(n(1), n(2), ThinF(&c, o));
        }
        "slice" => {
            let c = Case { ctor: s(3), rel: s(4), len: n(2), seed: n(5) as u32, which: 0 };
            if with_any(n(1), SliceV(&c, o)).is_none() { bad(o, "shape"); }
        }
        "str" => {
            let c = Case { ctor: s(3), rel: s(4), len: n(2), seed: n(5) as u32, which: 0 };
            if with_any(n(1), StrV(&c, o)).is_none() { bad(o, "shape"); }
        }
        "union" => {
            let c = Case { ctor: "", rel: "", len: 0, seed: n(4) as u32, which: n(3) };
            if !pair_ok(n(1), n(2)) { return skip(o, "pair-not-in-build"); }
            with_pair(n(1), n(2), UnionF(&c, o));
        }
        "widths" => { if with_any(n(1), WidthsV(o)).is_none() { bad(o, "shape"); } }
        "ovf" => {
            let c = Case { ctor: s(4), rel: "", len: n(3), seed: 1, which: 0 };
            if !pair_ok(n(1), n(2)) { return skip(o, "pair-not-in-build"); }
            with_pair(n(1), n(2), OvfF(&c, o));
        }
        "tag" => run_tag(n(1), o),
        "ext" => run_ext(n(1), n(2), n(3), n(4), o),
        "arr" => { if with_any(n(1), ArrV(n(2), o)).is_none() { bad(o, "shape"); } }
        _ => bad(o, "kind"),
    }
}

fn main() {
    // panics are expected observations: stay quiet, and mark the point in the event log where
    // the panic started (the panic machinery itself allocates the payload after the hook)
    std::panic::set_hook(Box::new(|_| harness::push_ev(PANIC_MARK)));
    let stdin = std::io::stdin();
    for line in stdin.lock().lines() {
        let line = match line { Ok(l) => l, Err(_) => break };
        let w: Vec<&str> = line.split_whitespace().collect();
        if w.is_empty() { println!("st=bad-case:empty"); continue; }
        if w[0] == "shapes" {
            let mut out = format!("st=ok nshapes={} ncore={} full={} small={} debug_assertions={} unsize={} arc_swap={}", NSHAPES, NCORE, cfg!(layout_full) as u8, cfg!(layout_small) as u8, cfg!(debug_assertions) as u8, cfg!(feature = "t_unsize") as u8, cfg!(feature = "t_arc_swap") as u8);
            for i in 0..NSHAPES {
                let (name, sz, al) = with_any(i, InfoV).unwrap();
                out.push_str(&format!(" {}:{}:{}:{}", i, name, sz, al));
            }
            println!("{}", out);
            continue;
        }
        if harness::nrec() + 64 > harness::MAXB { println!("st=capacity"); continue; }
        let mut o = Obs::new();
        let r = catch_unwind(AssertUnwindSafe(|| dispatch(&w, &mut o)));
        set_recording(false);
        if let Err(p) = r {
            // a panic inside the library: report its class and what the allocator saw before it
            o.st = format!("panic:{}", harness::panic_class(&*p));
            let evs = take_events();
            // the library's own allocations lie between the LIB mark and the PANIC mark; the panic
            // machinery formats its message into a String (align 1) before the hook runs, so only
            // word-aligned allocations are counted: every Arc block contains the count word
            let from = evs.iter().rposition(|e| *e == LIB_MARK).map(|i| i + 1).unwrap_or(0);
            let cut = evs.iter().position(|e| *e == PANIC_MARK).unwrap_or(evs.len()).max(from);
            let mut allocs = 0;
            let mut deallocs = 0;
            for e in &evs[from..cut] {
                match e {
                    Ev::Alloc(i, s, a) if *a >= size_of::<usize>() => {
                        allocs += 1;
                        let freed = evs.iter().any(|d| matches!(d, Ev::Dealloc(j, _, _) if j == i));
                        if !freed { o.lay("leaked", *s, *a); }
                    }
                    Ev::Dealloc(..) => deallocs += 1,
                    _ => {}
                }
            }
            o.f.clear();
            o.s.retain(|(k, _)| *k == "leaked");
            o.num("allocs", allocs);
            o.num("deallocs", deallocs);
            let msg = if let Some(s) = p.downcast_ref::<String>() { s.clone() } else if let Some(s) = p.downcast_ref::<&str>() { s.to_string() } else { String::new() };
            let msg: String = msg.chars().map(|ch| if ch.is_whitespace() { '_' } else { ch }).take(120).collect();
            o.text("msg", &msg);
        } else {
            let _ = take_events();
        }
        println!("{}", o.line());
    }
}
