import TriompheModel.Proofs.MonitorBase
import TriompheModel.Proofs.MonitorCow
import TriompheModel.Proofs.MonitorUnwrap
import TriompheModel.Proofs.MonitorCtor
import TriompheModel.Proofs.MonitorCb
import TriompheModel.Proofs.MonitorFree
import TriompheModel.Proofs.MonitorIter
/-!
# Soundness of the trace monitor on the model's own observations

For every check `Ki` of `Model/Monitor.lean`: on the observation `observe (run pre) op` that the model produces
after any history `pre`, the check returns `[]`; and the monitor state stays in the simulation relation `Rel` with the
model state.  `Props/Monitor.lean` assembles the theorem `monitor_accepts_model`.

`Proofs/MonitorBase.lean`: the relation, K1 – K6.  `Proofs/MonitorCow.lean`: K7.  `Proofs/MonitorUnwrap.lean`: K8 – K10.  `Proofs/MonitorCtor.lean`: K11.  `Proofs/MonitorCb.lean`: K12, K13.  `Proofs/MonitorFree.lean`: K14.  `Proofs/MonitorIter.lean`: K15.
This file: one op.
-/
namespace M1
namespace Mon
open LY

/-! ## one op -/

theorem checkK4_withEvs (pre : List (Nat × SlotObs)) (op : Op) (o : Obs) (evs' : List Event)
    (h : evs'.isEmpty = o.evs.isEmpty) : checkK4 pre op (o.withEvs evs') = checkK4 pre op o := by
  unfold checkK4 Obs.withEvs
  simp only [h]

theorem perm_isEmpty {l l' : List Event} (h : l.Perm l') : l.isEmpty = l'.isEmpty := by
  have := h.length_eq
  cases l <;> cases l' <;> simp_all

/-- **one step of the simulation**: after any history `pre` (with fresh identities, including those of `op`), every
check of `checkOp` passes on the model's observation of `op` — with the events of the op listed in any order —, and
the monitor state keeps describing the model state -/
theorem checkOp_sound_perm (pre : List Op) (op : Op) (hf : FreshIds (pre ++ [op])) (st : MSt) (hr : Rel st (run pre))
    (evs' : List Event) (hperm : evs'.Perm (observe (run pre) op).evs) :
    (checkOp st op ((observe (run pre) op).withEvs evs')).2 = [] ∧
    Rel (checkOp st op ((observe (run pre) op).withEvs evs')).1 (run (pre ++ [op])) := by
  have hrun : run (pre ++ [op]) = (step (run pre) op).1 := by simp [run, List.foldl_append]
  have hi := inv_run pre
  have h5 : checkK5 (observe (run pre) op) = [] :=
    K5_run (pre ++ [op]) _ (by rw [hrun]; rfl)
  have hi' := inv_run (pre ++ [op])
  have hl' := loginv_run (pre ++ [op])
  have hdl' := dl_run (pre ++ [op])
  have hnd' := drop_at_most_once (pre ++ [op]) hf
  rw [hrun] at hi' hl' hdl' hnd' ⊢
  obtain ⟨h1, h2⟩ := checkObsOnly_sound hr (loginv_run pre) (step_grow hi.toInv' op) hi' hl' hdl' hnd' h5 evs' hperm
  refine ⟨?_, h2⟩
  have h4 := K4_sound hi op
  have h6 : checkK6 (observeSlots (run pre)) op ((observe (run pre) op).withEvs evs') = [] := K6_sound hi op
  have hlen := leninv_run pre
  have h7 := K7_sound hi hlen (initinv_run pre) op
  have h8 := K8_sound hi op
  have h9 := K9_sound hi hlen op
  have h10 := K10_sound hi hlen op
  have h11 := K11_sound hi op
  have h12 : checkK12 (observeSlots (run pre)) op ((observe (run pre) op).withEvs evs') = [] := K12_sound hi op
  have h13 : checkK13 (observeSlots (run pre)) op ((observe (run pre) op).withEvs evs') = [] := K13_sound hi op
  rw [← checkK4_withEvs _ _ _ evs' (perm_isEmpty hperm)] at h4
  rw [← checkK7_withEvs _ _ _ evs' hperm] at h7
  rw [← checkK8_withEvs _ _ _ evs' hperm] at h8
  rw [← checkK9_withEvs _ _ _ evs' hperm] at h9
  rw [← checkK10_withEvs _ _ _ evs' hperm] at h10
  rw [← checkK11_withEvs _ _ _ evs' hperm] at h11
  rw [← hr.pre] at h4 h6 h7 h8 h9 h10 h11 h12 h13
  have h14 := K14_sound hi hlen st hr.pre op
  rw [← checkK14_withEvs _ _ _ evs' hperm] at h14
  have h15 : checkK15 st.pre op ((observe (run pre) op).withEvs evs') = [] := by
    rw [hr.pre]; exact K15_sound (run pre) op
  simp only [checkOp, h1, h4, h6, h7, h8, h9, h10, h11, h12, h13, h14, h15, List.append_nil]

theorem checkOp_sound (pre : List Op) (op : Op) (hf : FreshIds (pre ++ [op])) (st : MSt) (hr : Rel st (run pre)) :
    (checkOp st op (observe (run pre) op)).2 = [] ∧
    Rel (checkOp st op (observe (run pre) op)).1 (run (pre ++ [op])) :=
  checkOp_sound_perm pre op hf st hr _ (List.Perm.refl _)

end Mon
end M1
