"""Shared body of the history-based checks (C01 C03 C04 C06 C07 C08 C09 C10 C12 C15).

Each property module supplies: its Lean module, generator weights (which ops its random histories
favour), and which monitor tags count as a failing input *of that property*.
"""
import os

from vlib import common, hist

ASSUME = [
    "payload universe of the correspondence: the harness's identity-tracked types (Tracked 8/4, TrackedB 16/8, dyn Tr); the Lean model is generic in the values",
    "the harness's tracking allocator and quarantine (freed blocks are poisoned and never reused) make early destruction visible as a bad read",
    "sequential semantics only here; schedules are the subject of the M4 theorems (C02 and the schedule halves of C03/C08/C09)",
]


def describe(hs, k):
    return "\n".join(hs[k])


SHAPE = "TriompheModel.Props.ModelShape"


def is_sched_obligation(name):
    """obligations on translator facts (orderings, gate resolution, code shape): their failing-input
    search is Miri's, not the sequential correspondence's"""
    return name.startswith("lean:") and (".obl_" in name or name.startswith("lean:ModelShape.") or name.startswith("lean:Gates.")
                                         or "exclusive" in name)


def run(ctx, module, weights, tags, n_quick=250, len_quick=60, n_thorough=4000, len_thorough=200, extra_histories=None,
        release_too=False, lean_extra=(), shape=True, lean=True, cov_key=None, release_quick_filter=None, zst=True, search_only=False):
    """lean=False / cov_key=...: used as a *secondary* pass by checks whose main body is elsewhere
    (C05: dealloc layouts along histories)"""
    if lean:
        ctx.assumptions = list(ASSUME)
    else:
        ctx.assumptions = list(ctx.assumptions) + ASSUME[:2]
    ok, out = True, ""
    if shape and lean:
        facts = common.regen_facts(ctx)
        a = facts.get("atomics", {})
        ctx.coverage.setdefault("generated_facts", {}).update({k: a.get(k) for k in ("dropSkeleton", "decGuard", "isUniqueGuard", "unknownWrites", "funnels")})
        lean_extra = list(lean_extra) + [SHAPE]
    if lean:
        ok, out = common.lean_obligations(ctx, module, lean_extra)
    exe, bout = common.cargo_build_bin(ctx, "hist")
    if exe is None:
        common.harness_build_failed(ctx, "hist", bout, what="the history correspondence harness")
        return
    model = common.lean_exe("drv_hist")
    hs = hist.load_corpus()
    ncorpus = len(hs)
    tour = hist.tour()
    hs += tour
    if extra_histories:
        hs += extra_histories
    n, ln = (n_thorough, len_thorough) if ctx.thorough() else (n_quick, len_quick)
    hs += hist.generate(ctx, n, ln, weights)
    res = hist.run_correspondence(ctx, hs, exe, model)
    configs = ["debug/default+unsize+arc-swap"]
    results = [("debug", exe, res)]
    if ctx.thorough() or release_too:
        # second configuration: no default features of the crate except std (no serde, no stable_deref)
        exe2, o2 = common.cargo_build_bin(ctx, "hist", features=("std",))
        if exe2:
            # (histories that use the arc-swap integration need that feature)
            idx2 = [i for i, h in enumerate(hs) if not any(op.startswith("asw ") for op in h)]
            r2 = hist.run_correspondence(ctx, [hs[i] for i in idx2], exe2, model)
            r2.disagreements = [(idx2[hi], k, a, b) for (hi, k, a, b) in r2.disagreements]
            r2.monitor_fails = [(idx2[hi], k, p, m) for (hi, k, p, m) in r2.monitor_fails]
            r2.crashes = [(idx2[hi], rc) for (hi, rc) in r2.crashes]
            results.append(("debug/std-only", exe2, r2))
            configs.append("debug/std only")
    if release_quick_filter is None:
        # every history check runs the release profile too (the crate's debug_asserts vanish there): by default on
        # every history whose iterator keeps its size_hint
        release_quick_filter = lambda h: True
    if release_quick_filter is not None and not ctx.thorough():
        # quick tier: the release profile on the part of the tour where the two profiles can differ
        # for this property (debug_asserts / overflow checks vanish)
        exe3, o3 = common.cargo_build_bin(ctx, "hist", release=True)
        if exe3:
            def hint_changes_q(h):
                return any(op.startswith("iter ") and "," in op.split("hints=")[1].split()[0] for op in h)
            idx = [i for i, h in enumerate(hs) if release_quick_filter(h) and not hint_changes_q(h)]
            r3 = hist.run_correspondence(ctx, [hs[i] for i in idx], exe3, model)
            r3.disagreements = [(idx[hi], k, a, b) for (hi, k, a, b) in r3.disagreements]
            r3.monitor_fails = [(idx[hi], k, p, m) for (hi, k, p, m) in r3.monitor_fails]
            r3.crashes = [(idx[hi], rc) for (hi, rc) in r3.crashes]
            results.append(("release", exe3, r3))
            configs.append("release (part of the tour: %d histories)" % len(idx))
    if ctx.thorough():
        # release profile: the crate's debug_asserts vanish (IteratorAsExactSizeIterator's size-hint
        # checks, from_arc, into_inner, protected_into_thin, with_arc_mut).  The model's `step` is the
        # debug-assertions-on behaviour, so histories whose iterator changes its size_hint between
        # calls (the only place where the two profiles differ on valid inputs) are left out here.
        exe3, o3 = common.cargo_build_bin(ctx, "hist", release=True)
        if exe3:
            def hint_changes(h):
                for op in h:
                    if op.startswith("iter ") and "," in op.split("hints=")[1].split()[0]:
                        return True
                return False
            hs_rel = [h for h in hs if not hint_changes(h)]
            r3 = hist.run_correspondence(ctx, hs_rel, exe3, model)
            # indices of r3 refer to hs_rel: remap to hs for reporting
            idx = [i for i, h in enumerate(hs) if not hint_changes(h)]
            r3.disagreements = [(idx[hi], k, a, b) for (hi, k, a, b) in r3.disagreements]
            r3.monitor_fails = [(idx[hi], k, p, m) for (hi, k, p, m) in r3.monitor_fails]
            r3.crashes = [(idx[hi], rc) for (hi, rc) in r3.crashes]
            results.append(("release", exe3, r3))
            configs.append("release/default+unsize+arc-swap (histories with changing size_hints excluded)")
    zres = None
    if zst:
        # zero-sized payload build of the same harness: the sized-family part of every history, compared
        # with the model's lines projected onto what a ZST can carry (events by kind, counts, blocks, statuses)
        exez, oz = common.cargo_build_bin(ctx, "hist", features=("std", "serde", "stable_deref_trait", "unsize", "arc-swap", "zst"))
        if exez:
            zn, zdis, zmon, zcr = hist.run_zst_pass(ctx, hs, exez, model)
            # iterator-based constructors with zero-sized elements: monitor only (refusal or a correct handle)
            zin, zifails, zicr, zihs = hist.run_zst_iter_pass(exez, hs)
            ctx.coverage["zst_iterator_histories"] = zin
            mine_zi = [x for x in zifails if set(x[2]) & set(tags)]
            ctx.oblige("monitor:zst-iterator-constructors", not mine_zi and not zicr, "%d failures, %d crashes" % (len(mine_zi), len(zicr)))
            if mine_zi or zicr:
                if mine_zi:
                    hi, k, props, msg = mine_zi[0]
                    ops_z = zihs[hi][:k + 1]
                else:
                    ops_z, msg = zihs[zicr[0][0]], "the harness process died (status %s)" % zicr[0][1]
                il_z, _ = hist.run_batch(exez, "\n".join(ops_z) + "\n", timeout=60)
                body = ["failing history with a ZERO-SIZED element type (the harness built with `Tracked` as a unit struct):", ""]
                for kk, op in enumerate(ops_z):
                    body += ["op   : " + op, "  impl : " + (il_z[kk] if kk < len(il_z) else "<none>")]
                body += ["  PROPERTY %s FAILS HERE: %s" % (ctx.prop, msg), "", "CONFIG zst"] + ["OP " + o for o in ops_z]
                ctx.violation("ops", "\n".join(body), True)
            zres = (exez, zn, zdis, zmon, zcr)
            configs.append("debug, zero-sized payload type (%d histories with sized constructors only; projected comparison)" % zn)
    # differences that concern another property's subject do not break THIS property's tie (hist.relevant); they are
    # counted in the evidence.  Crashes of the harness process always count.
    outside = 0
    for _, _, r in results:
        keep = []
        for d in r.disagreements:
            if hist.relevant(ctx.prop, hs[d[0]], d[1], d[2], d[3]):
                keep.append(d)
            else:
                outside += 1
        r.disagreements = keep
    if zres:
        zkeep = [d for d in zres[2] if hist.relevant(ctx.prop, hs[d[0]], d[1], d[2], d[3])]
        outside += len(zres[2]) - len(zkeep)
        zres = (zres[0], zres[1], zkeep, zres[3], zres[4])
        ctx.oblige("corr:hist-model-vs-impl-zst", not zkeep and not zres[4], "%d projected disagreements, %d crashes over %d histories" % (len(zkeep), len(zres[4]), zres[1]))
    ctx.coverage["disagreements_outside_this_property_slice"] = outside
    agreed = all(not r.disagreements and not r.crashes for _, _, r in results)
    if search_only:
        # the caller uses the histories as a failing-input search for its own monitors only
        agreed = all(not r.crashes for _, _, r in results)
    ctx.oblige("corr:hist-model-vs-impl" if not search_only else "search:hist-no-crash", agreed,
               "; ".join("%s: %d disagreements, %d crashes" % (nm, len(r.disagreements), len(r.crashes)) for nm, _, r in results))
    mine = []
    other = []
    for nm, ex, r in results:
        for (hi, k, props, msg) in r.monitor_fails:
            (mine if set(props) & set(tags) else other).append((nm, ex, hi, k, props, msg))
    zmine = []
    if zres:
        for (hi, k, props, msg) in zres[3]:
            if set(props) & set(tags):
                zmine.append((hi, k, props, msg))
            else:
                other.append(("zst", zres[0], hi, k, props, msg))
    ctx.oblige("monitor:%s-on-impl-traces" % ctx.prop, not mine and not zmine, "%d monitor failures" % (len(mine) + len(zmine)))
    r0 = res
    cov = {}
    cov.update({
        "evaluations": sum(r.ops for _, _, r in results),
        "histories": sum(r.histories for _, _, r in results),
        "distinct_nontrivial": r0.nontrivial,
        "rule": ("one evaluation = one op executed on the real library and on the Lean model with all observations compared; "
                 "histories = corpus (%d) + systematic tour (%d: every op x handle type x co-owner kinds x 0..2 co-owners, iterator scripts, "
                 "constructor lengths, recorded-vs-true lengths, written subsets) + %d seeded random histories of <= %d ops; "
                 "distinct_nontrivial = distinct op sequences of >= 3 ops in which some op succeeded on a non-empty slot table" % (ncorpus, len(tour), n, ln)),
        "samples": [" ; ".join(hs[i][1:8]) for i in (ncorpus, ncorpus + len(tour) // 2, len(hs) - 1)],
        "ops_by_name": dict(sorted(r0.op_hist.items())),
        "statuses": dict(sorted(r0.status_hist.items())),
        "handle_types_seen": sorted(r0.kinds_seen),
        "max_simultaneous_owners": r0.max_owners,
        "configurations": configs,
        "disagreements": sum(len(r.disagreements) for _, _, r in results),
        "monitor_failures_this_property": len(mine),
        "monitor_failures_other_properties": len(other),
        "traces_validated_against_impl": sum(r.histories for _, _, r in results),
    })
    if cov_key:
        ctx.coverage[cov_key] = cov
        ctx.coverage["evaluations"] = ctx.coverage.get("evaluations", 0) + cov["evaluations"]
    else:
        ctx.coverage.update(cov)
    if not ctx.failed_obligations():
        return
    hist_failed = [n for n in ctx.failed_obligations() if not is_sched_obligation(n) and not n.startswith("miri:")]
    sched_failed = [n for n in ctx.failed_obligations() if is_sched_obligation(n)]
    if sched_failed:
        shape_search(ctx, sched_failed, out)
    if not hist_failed:
        return
    # ---- something broke: find a concrete failing input for THIS property --------------------
    if mine:
        nm, ex, hi, k, props, msg = mine[0]
        ops = hs[hi][:k + 1]
        small = hist.shrink(ex, model, ops, props=tags)
        text, mf, rc = hist.side_by_side(ex, model, small)
        body = ["failing history (shrunk from %d to %d ops; configuration %s); the property is evaluated on the implementation's own observations:" % (len(ops) - 1, len(small) - 1, nm),
                "what failed in the full run, at op %d of the unshrunk history: %s" % (k, msg),
                "", text, "", "ops (replay with: bin/check %s --replay <this file>):" % ctx.prop]
        body += ["OP " + o for o in small]
        ctx.violation("ops", "\n".join(body), True)
        save_corpus(ctx, small)
        return
    if zmine:
        hi, k, props, msg = zmine[0]
        ops = hs[hi][:k + 1]
        small = hist.zst_shrink(zres[0], model, ops, props=tags)
        text, mf, rc, _ = hist.zst_side_by_side(zres[0], model, small)
        body = ["failing history with a ZERO-SIZED payload type (shrunk from %d to %d ops); the property is evaluated on the implementation's own observations:" % (len(ops) - 1, len(small) - 1),
                "", text, "", "CONFIG zst", "ops (replay with: bin/check %s --replay <this file>):" % ctx.prop]
        body += ["OP " + o for o in small]
        ctx.violation("ops", "\n".join(body), True)
        return
    crashed = [(nm, ex, r) for nm, ex, r in results if r.crashes]
    if crashed:
        nm, ex, r = crashed[0]
        hi, rc = r.crashes[0]
        small = hist.shrink(ex, model, hs[hi])
        text, mf, rc2 = hist.side_by_side(ex, model, small)
        body = ["the harness process running the REAL library died (exit status %s) on this history of safe API calls (configuration %s):" % (rc, nm), "", text, ""]
        body += ["OP " + o for o in small]
        ctx.violation("ops", "\n".join(body), True)
        save_corpus(ctx, small)
        return
    # disagreement (or Lean failure) without a monitor failure of this property
    body = []
    if not ok:
        body.append("Lean obligations that no longer check: %s" % [n for n in ctx.failed_obligations() if n.startswith("lean")])
        body.append(out[-2500:])
    dis = [(nm, ex, d) for nm, ex, r in results for d in r.disagreements]
    if dis:
        nm, ex, (hi, k, a, b) = dis[0]
        small = hist.shrink(ex, model, hs[hi][:k + 1])
        text, mf, rc = hist.side_by_side(ex, model, small)
        body += ["correspondence `corr:hist-model-vs-impl` no longer checks: model and implementation disagree (%d histories; configuration %s)." % (len(dis), nm),
                 "first disagreement, shrunk; no monitor of %s fails on the implementation's trace (monitors of other properties that fail: %s):" % (
                     ctx.prop, sorted({p for _, _, _, _, ps, _ in other for p in ps})), "", text, ""]
        body += ["OP " + o for o in small]
    elif zres and (zres[2] or zres[4]):
        if zres[4]:
            hi, rc0 = zres[4][0]
            ops = hs[hi]
        else:
            hi, k, a, b = zres[2][0]
            ops = hs[hi][:k + 1]
        small = hist.zst_shrink(zres[0], model, ops)
        text, mf, rc, _ = hist.zst_side_by_side(zres[0], model, small)
        if rc != 0:
            body = ["the harness process running the REAL library with a zero-sized payload type died (exit status %s) on this history of safe API calls:" % rc, "", text, "", "CONFIG zst"]
            body += ["OP " + o for o in small]
            ctx.violation("ops", "\n".join(body), True)
            return
        body += ["correspondence `corr:hist-model-vs-impl-zst` no longer checks: with a zero-sized payload type, model and implementation disagree (%d histories)." % len(zres[2]),
                 "first disagreement, shrunk; no monitor of %s fails on the implementation's trace:" % ctx.prop, "", text, "", "CONFIG zst"]
        body += ["OP " + o for o in small]
    ctx.defer_nfi("\n".join(body))


def shape_search(ctx, failed, lean_out):
    """a translator-fact obligation failed: the sequential runs cannot exhibit it; ask Miri"""
    if any(v["kind"] == "miri" for v in ctx.violations) or getattr(ctx, "sched_handled", False):
        return
    ctx.sched_handled = True
    import json
    from vlib import miri
    body = ["Lean obligations on facts re-extracted from the source that no longer check: %s" % failed,
            "generated facts: " + json.dumps(ctx.coverage.get("generated_facts")), ""]
    prop = ctx.prop if ctx.prop in ("C03", "C08", "C09") else "C02"
    res = miri.run_suite(ctx, miri.programs_for(prop), miri.seeds(ctx, 8), stop_first=True)
    bad = miri.failing(res)
    ctx.coverage["shape_search_miri_runs"] = len(res)
    if bad:
        r = bad[0]
        body += ["failing input: Miri litmus program `%s` with -Zmiri-seed=%d:" % (r["program"], r["seed"]), "  replay: " + r["cmd"], r["report"]]
        ctx.violation("miri", "\n".join(body), True)
    else:
        # second search: the same programs natively (release build, real threads, many rounds)
        nat = miri.run_native(ctx, miri.programs_for(prop) if prop != "C02" else miri.programs_for("C02") + miri.programs_for("C09"))
        nbad = miri.failing(nat)
        ctx.coverage["shape_search_native_runs"] = len(nat)
        if nbad:
            r = nbad[0]
            body += ["failing input: litmus program `%s` run natively (%d rounds, real threads):" % (r["program"], r.get("rounds", 0)),
                     "  replay: " + r["cmd"], r["report"]]
            ctx.violation("native", "\n".join(body), True)
            return
        body += ["search: %d Miri litmus runs (%s) and %d native stress runs found no failing schedule" % (len(res), prop, len(nat)), lean_out[-2000:]]
        ctx.defer_nfi("\n".join(body))


def save_corpus(ctx, ops):
    """failing histories found by a run are kept under .build (not in the committed corpus: the check
    never edits committed files at run time)"""
    d = os.path.join(common.BUILD, "found-corpus")
    os.makedirs(d, exist_ok=True)
    open(os.path.join(d, "%s-%d.ops" % (ctx.prop, ctx.seed)), "w").write("\n".join(ops) + "\n")


def replay(ctx, path, tags):
    ops = [l[3:].strip() for l in open(path) if l.startswith("OP ")]
    if not ops:
        raise RuntimeError("no OP lines in replay file")
    model = common.lean_exe("drv_hist")
    if any(l.strip() == "CONFIG zst" for l in open(path)):
        exe, bout = common.cargo_build_bin(ctx, "hist", features=("std", "serde", "stable_deref_trait", "unsize", "arc-swap", "zst"))
        text, mf, rc, _ = hist.zst_side_by_side(exe, model, ops)
        text += "\nCONFIG zst"
    else:
        exe, bout = common.cargo_build_bin(ctx, "hist")
        text, mf, rc = hist.side_by_side(exe, model, ops)
    print(text)
    bad = [m for m in mf if set(m[1]) & set(tags)] or (rc != 0)
    ctx.oblige("replay", not bad)
    if bad:
        ctx.violation("ops", text + "\n" + "\n".join("OP " + o for o in ops), True)
