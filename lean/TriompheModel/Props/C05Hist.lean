import TriompheModel.Proofs.HistLen
/-!
# C05, history clause — "exactly that block is returned with exactly the size and alignment it was
requested with, through whichever handle kind, conversion, unsizing or unwrapping path"

`Props/C05.lean` proves the arithmetic (request side = release side for every shape).  Here the two
sides meet along histories of the handle machine M1: the layout recorded by every `dealloc` event is
the layout of the block's `alloc` event, for EVERY finite history over every mix of handle kinds
(drop as Arc / ThinArc / OffsetArc / ArcUnion / UniqueArc, after from_raw, after the cast to `dyn`,
after header erasure, after `assume_init`, via `into_inner` / `try_unwrap`, refused `into_thin`,
`with_arc_mut` replacing the Arc, the length-mismatch destroy of `ThinArc::from_header_and_iter`).
The proof combines the invariants `LenInv` (every view sees the real length) and `LayInv` (every
view's release layout is the block's request layout — established at construction by the C05
arithmetic theorems, preserved by every op) with the allocation-log discipline `LogInv`.
-/
namespace M1
namespace C05H

/-- **C05 (histories).** -/
theorem C05_dealloc_layout_invariant (ops : List Op) (b sz al sz' al' : Nat)
    (ha : Event.alloc b sz al ∈ (run ops).mem.log) (hd : Event.dealloc b sz' al' ∈ (run ops).mem.log) :
    sz' = sz ∧ al' = al :=
  dealloc_layout_eq_alloc_layout ops b sz al sz' al' ha hd

/-- whoever releases a block next will compute the layout it was requested with: for every handle
in the table, the `Arc` view that `drop` uses has `releaseLayout = block.lay` -/
theorem C05_release_layout_is_request_layout (ops : List Op) (i : Nat) (h : HV) (k : Block)
    (hl : lookup (run ops) i = some h) (hk : (run ops).mem.blocks[h.blk]? = some k) :
    (asArc (run ops).mem h).ty.releaseLayout (viewLen (run ops).mem (asArc (run ops).mem h)) = k.lay :=
  (layinv_run ops).lay i h (lookup_mem hl) k hk

/-- freed exactly once (from `LogInv`) -/
theorem C05_freed_once (ops : List Op) (i j b sz al sz' al' : Nat)
    (h1 : (run ops).mem.log[i]? = some (Event.dealloc b sz al))
    (h2 : (run ops).mem.log[j]? = some (Event.dealloc b sz' al')) : i = j :=
  dealloc_unique (loginv_run ops) h1 h2

end C05H
end M1
