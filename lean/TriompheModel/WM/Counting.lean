namespace WM

abbrev H := Nat

inductive Op where
  | inc (child : H) (src : H)
  | dec (h : H)
deriving DecidableEq, Repr

def stepLive (live : List H) : Op → List H
  | .inc c _ => c :: live
  | .dec h => live.erase h

def stepBorn (born : List H) : Op → List H
  | .inc c _ => c :: born
  | .dec _ => born

def stepVal (v : Int) : Op → Int
  | .inc _ _ => v + 1
  | .dec _ => v - 1

structure St where
  live : List H
  born : List H
  val : Int

def St.init : St := ⟨[0], [0], 1⟩
def St.step (s : St) (o : Op) : St := ⟨stepLive s.live o, stepBorn s.born o, stepVal s.val o⟩
def run (ops : List Op) : St := ops.foldl St.step St.init

/-- an op is enabled in a state: what ownership discipline + coherence give us -/
def Enabled (s : St) : Op → Prop
  | .inc c src => src ∈ s.live ∧ c ∉ s.born
  | .dec h => h ∈ s.live

inductive WF : List Op → Prop
  | nil : WF []
  | snoc {ops o} : WF ops → Enabled (run ops) o → WF (ops ++ [o])

structure Inv (s : St) : Prop where
  nodup : s.live.Nodup
  sub : ∀ h, h ∈ s.live → h ∈ s.born
  val : s.val = s.live.length

theorem run_snoc (ops : List Op) (o : Op) : run (ops ++ [o]) = (run ops).step o := by
  simp [run, List.foldl_append]

theorem inv_init : Inv St.init := ⟨by simp [St.init], by simp [St.init], by simp [St.init]⟩

theorem inv_step {s : St} {o : Op} (hi : Inv s) (he : Enabled s o) : Inv (s.step o) := by
  cases o with
  | inc c src =>
    obtain ⟨_, hc⟩ := he
    refine ⟨?_, ?_, ?_⟩
    · simp only [St.step, stepLive, List.nodup_cons]
      exact ⟨fun h => hc (hi.sub _ h), hi.nodup⟩
    · intro h hh
      simp only [St.step, stepLive, stepBorn, List.mem_cons] at hh ⊢
      rcases hh with rfl | hh
      · exact Or.inl rfl
      · exact Or.inr (hi.sub _ hh)
    · simp [St.step, stepLive, stepVal, hi.val]
  | dec h =>
    have he : h ∈ s.live := he
    refine ⟨?_, ?_, ?_⟩
    · exact hi.nodup.erase h
    · intro x hx
      exact hi.sub _ (List.mem_of_mem_erase hx)
    · simp only [St.step, stepLive, stepVal, hi.val, List.length_erase_of_mem he]
      have : 0 < s.live.length := List.length_pos_of_mem he
      omega

theorem inv_run {ops : List Op} (h : WF ops) : Inv (run ops) := by
  induction h with
  | nil => exact inv_init
  | snoc _ he ih => rw [run_snoc]; exact inv_step ih he

theorem wf_snoc_inv {ops : List Op} {o : Op} (h : WF (ops ++ [o])) : WF ops ∧ Enabled (run ops) o := by
  generalize hl : ops ++ [o] = l at h
  cases h with
  | nil => simp at hl
  | @snoc ops' o' hw he =>
    obtain ⟨rfl, ho⟩ := List.append_inj' hl rfl
    cases ho
    exact ⟨hw, he⟩

/-- Once the count word reaches zero, no further operation on it is possible:
the decrement that observed 1 is last in modification order. -/
theorem zero_is_final {ops : List Op} {o : Op} (h : WF (ops ++ [o])) (hz : (run ops).val = 0) : False := by
  obtain ⟨hw, he⟩ := wf_snoc_inv h
  have hi := inv_run hw
  have hl : (run ops).live = [] := by
    have := hi.val; rw [hz] at this
    exact List.eq_nil_of_length_eq_zero (by omega)
  cases o with
  | inc c src => exact absurd he.1 (by simp [hl])
  | dec k => have he : k ∈ (run ops).live := he; simp [hl] at he

end WM
