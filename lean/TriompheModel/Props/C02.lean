import TriompheModel.WM.Unique
import TriompheModel.WM.Example
import TriompheModel.WM.Weak
import TriompheModel.Generated.Atomics
import TriompheModel.Props.Gates
import TriompheModel.WM.RelSeq
import TriompheModel.WM.WeakAcq
/-!
# C02 — concurrent clone/drop: one destroyer, ordered after every thread's last access

The general theorems live in `WM/Graph.lean` (`destroy_after_all`, `destroy_unique`); they are
parametric in the ordering of the decrement and of the load/fence that precedes destruction.
Here they are instantiated at what the translator read out of `/repo/src/arc.rs` **on this run**
(`Generated.*`).  Each `obl_*` theorem is a proof obligation on a generated constant, discharged by
`decide`: if the source changes so that the obligation is false, this file stops compiling.
-/
open Facts WM
namespace C02

/-- the ordering of the load/fence between the decrement and `drop_slow`, if there is one -/
def fenceOrd : Option MemOrd := Generated.fence.map FenceKind.ord

/-- the decrement is (at least) a release -/
theorem obl_dec_release : Generated.decOrd.isRel = true := by decide

/-- an acquire precedes destruction: on the decrement itself, or on the following load/fence -/
def acqBeforeDestroy : Bool :=
  Generated.decOrd.isAcq || (match fenceOrd with | some o => o.isAcq | none => false)
theorem obl_acquire_before_destroy : acqBeforeDestroy = true := by decide

/-- `drop_inner` is: guarded decrement, then the fence (if any), then destruction, nothing else -/
def skeletonOk : Bool :=
  (Generated.dropSkeleton == [.decGuard, .fence, .destroy] && Generated.fence.isSome) ||
  (Generated.dropSkeleton == [.decGuard, .destroy] && Generated.fence.isNone)
theorem obl_skeleton : skeletonOk = true := by decide

/-- destruction happens exactly when the decrement observed 1 -/
theorem obl_dec_guard : Generated.decGuard = ⟨.ne, some 1⟩ := by decide

/-- every write / RMW / fence on a count in the crate is the increment in `Arc::clone` or belongs to
`Arc::drop_inner`; there is no other place that modifies a count -/
def censusOk : Bool :=
  Generated.unknownWrites.isEmpty &&
  Generated.sites.all (fun s => !s.kind.isWrite || s.debugOnly ||
    (s.fn_ == "Arc::clone" && s.kind == .fetchAdd) ||
    (s.fn_ == "Arc::drop_inner" && (s.kind == .fetchSub || s.kind == .fence)))
theorem obl_census : censusOk = true := by decide

/-- exactly one increment site and one decrement site -/
theorem obl_one_inc_one_dec :
    (Generated.sites.filter (fun s => s.kind == .fetchAdd && !s.debugOnly)).length = 1 ∧
    (Generated.sites.filter (fun s => s.kind == .fetchSub && !s.debugOnly)).length = 1 := by decide

/-- the other handle kinds clone and drop by funnelling into `Arc`'s clone / drop -/
def funnelsOk : Bool := Generated.funnels.all (fun f => f.ownAtomics == 0 && f.reaches)
theorem obl_funnels : funnelsOk = true := by decide

theorem acq_of_obl : Generated.decOrd.isAcq = true ∨ ∃ o, fenceOrd = some o ∧ o.isAcq = true := by
  have h := obl_acquire_before_destroy
  unfold acqBeforeDestroy at h
  cases hd : Generated.decOrd.isAcq with
  | true => exact Or.inl rfl
  | false =>
    rw [hd] at h
    cases hf : fenceOrd with
    | none => rw [hf] at h; simp at h
    | some o => rw [hf] at h; exact Or.inr ⟨o, rfl, by simpa using h⟩

variable {X : CountExec}

/-- **C02 (ordering).**  In every consistent execution of the accesses to one allocation, by any
number of threads, following the ownership protocol with the decrement ordering and fence found in
the source: the decrement that triggers destruction is the last RMW on the count ever, and every
payload access and count access made through any handle, and every other clone/drop, happens-before
the destruction (destructor + deallocation). -/
theorem C02_destroy_after_all (hc : Consistent X) (hp : Protocol X Generated.decOrd fenceOrd)
    {f : X.A} {k : Nat} (hf : X.kind f = .destroy k) :
    k + 1 = X.ops.length ∧
    (∀ a h, (X.kind a).via = some h → X.hb (.oth a) (.oth f)) ∧
    (∀ i, i < X.ops.length → i ≠ k → X.hb (.rmw i) (.oth f)) :=
  destroy_after_all hc hp obl_dec_release acq_of_obl hf

/-- **C02 (exactly one destroyer).** -/
theorem C02_destroy_unique (hc : Consistent X) (hp : Protocol X Generated.decOrd fenceOrd)
    {f₁ f₂ : X.A} {k₁ k₂ : Nat} (h₁ : X.kind f₁ = .destroy k₁) (h₂ : X.kind f₂ = .destroy k₂) :
    f₁ = f₂ :=
  destroy_unique hc hp h₁ h₂

/-- **C02 (nothing after the release of the memory).**  No access through a handle and no RMW on
the count is ordered after the destruction: anything that is `hb`-after `f` would, with the
previous theorem, be `hb`-after itself. -/
theorem C02_nothing_after_destroy (hc : Consistent X) (hp : Protocol X Generated.decOrd fenceOrd)
    {f : X.A} {k : Nat} (hf : X.kind f = .destroy k) :
    (∀ a h, (X.kind a).via = some h → ¬ X.hb (.oth f) (.oth a)) ∧
    (∀ i, i < X.ops.length → ¬ X.hb (.oth f) (.rmw i)) := by
  obtain ⟨_, hacc, hrmw⟩ := C02_destroy_after_all hc hp hf
  obtain ⟨hkf, _⟩ := sync_to_destroy hc hp acq_of_obl hf
  refine ⟨?_, ?_⟩
  · intro a h hv hfa
    exact hc.hb_irrefl _ (hc.hb_trans (hacc a h hv) hfa)
  · intro i hi hfi
    by_cases hik : i = k
    · subst hik; exact hc.hb_irrefl _ (hc.hb_trans hkf hfi)
    · exact hc.hb_irrefl _ (hc.hb_trans (hrmw i hi hik) hfi)

/-- Non-vacuity: a concrete two-thread execution (clone, hand-over, read ‖ read, drop ‖ drop,
acquire load, destroy) is consistent and follows the protocol, and the theorem orders thread B's
read before the destruction performed by thread A. -/
example : exX.hb (.oth (1 : EA)) (.oth (3 : EA)) :=
  (destroy_after_all ex_consistent ex_protocol rfl (Or.inr ⟨_, rfl, rfl⟩) (f := (3 : EA)) (k := 2) rfl).2.1
    (1 : EA) 1 rfl

/-- Necessity of the release ordering (model-level counterexample used in replay files): with a
relaxed decrement there is a consistent, protocol-following execution in which a payload read and
the destruction are unordered — a data race. -/
theorem C02_release_needed :
    Consistent Weak.exX ∧ Protocol Weak.exX .relaxed (some .acquire) ∧
    ¬ Weak.exX.hb (.oth (1 : Weak.EA)) (.oth (3 : Weak.EA)) ∧
    ¬ Weak.exX.hb (.oth (3 : Weak.EA)) (.oth (1 : Weak.EA)) :=
  ⟨Weak.ex_consistent, Weak.ex_protocol, Weak.release_needed.1, Weak.release_needed.2⟩

/-- Necessity of the acquire before destruction: release decrements but a Relaxed load before
`drop_slow` admit a consistent, protocol-following execution with the same race. -/
theorem C02_acquire_needed :
    Consistent WeakAcq.exX ∧ Protocol WeakAcq.exX .release (some .relaxed) ∧
    ¬ WeakAcq.exX.hb (.oth (1 : WeakAcq.EA)) (.oth (3 : WeakAcq.EA)) ∧
    ¬ WeakAcq.exX.hb (.oth (3 : WeakAcq.EA)) (.oth (1 : WeakAcq.EA)) :=
  ⟨WeakAcq.ex_consistent, WeakAcq.ex_protocol, WeakAcq.acquire_needed.1, WeakAcq.acquire_needed.2⟩

/-- the same under the *primitive* statement of synchronises-with (release sequences as in
[intro.races]/5, RMW atomicity; `WM/RelSeq.lean` derives the index form from it) -/
theorem C02_destroy_after_all_prim (hc : ConsistentPrim X) (hp : Protocol X Generated.decOrd fenceOrd)
    {f : X.A} {k : Nat} (hf : X.kind f = .destroy k) :
    k + 1 = X.ops.length ∧
    (∀ a h, (X.kind a).via = some h → X.hb (.oth a) (.oth f)) ∧
    (∀ i, i < X.ops.length → i ≠ k → X.hb (.rmw i) (.oth f)) :=
  destroy_after_all_prim hc hp obl_dec_release acq_of_obl hf

/-! ## the other way memory is released: moving the value out

`try_unwrap` / `try_unique`+`into_inner` / `unwrap_or_clone` free the block WITHOUT a decrement, on the
strength of their uniqueness gate.  The property's "every access … happens-before the release of the
memory" therefore also needs those gates to be Acquire loads compared with 1. -/

theorem obl_consuming_gates_acquire :
    (Gates.gateOk "Arc::try_unique" && Gates.gateOk "Arc::try_unwrap" && Gates.gateOk "Arc::unwrap_or_clone" &&
     Gates.gateOk "UniqueArc::try_from") = true := by decide

/-- **C02 (move-out path).**  When a consuming gate succeeded through handle `h`, every access ever
made through any other handle happens-before the gate's load — hence before the value is moved out
and the block freed — and (`WM.consume_is_end`) no RMW on the count can follow. -/
theorem C02_move_out_after_all (hc : Consistent X) (hp : Protocol X Generated.decOrd fenceOrd)
    (hrw : CoRW X) (hvb : ViaBorn X) {l : X.A} {h : H} {o : MemOrd} {rf : Option Nat}
    (c : Consume X l h o rf) :
    (∀ (a : X.A) (h' : H), (X.kind a).via = some h' → h' ≠ h →
      (h' = 0 ∨ ∃ j, rf = some j ∧ h' ∈ kids (X.ops.take (j+1))) → X.hb (.oth a) (.oth l)) ∧
    X.ops.length ≤ prefixLen rf ∧ (¬ ∃ f k, X.kind f = .destroy k) :=
  ⟨consume_after_all_former_sharers hc hp hrw hvb obl_dec_release c,
   (consume_is_end hc hp hrw hvb c).1,
   fun ⟨_, _, hf⟩ => consume_excludes_destroy hc hp hrw hvb c hf⟩

end C02
