import TriompheModel.WM.Live
import TriompheModel.Facts
open Facts
namespace WM

/-- Events touching one allocation: the RMWs on the count word (identified with their position in
modification order) and everything else. -/
inductive Ev (A : Type) where
  | rmw (i : Nat)
  | oth (a : A)

/-- What a non-RMW event is. `rf = none`: the load reads the initialising store. -/
inductive AKind where
  | load (via : H) (ord : MemOrd) (rf : Option Nat)      -- count / strong_count / is_unique through a handle
  | access (via : H)                                     -- payload read or write through a handle
  | fenceLoad (after : Nat) (ord : MemOrd) (rf : Option Nat) -- the load in drop_inner, after RMW #after
  | destroy (after : Nat)                                -- drop_slow: destructor + dealloc, after RMW #after

def AKind.via : AKind → Option H
  | .load h _ _ => some h
  | .access h => some h
  | _ => none

def AKind.loadInfo : AKind → Option (MemOrd × Option Nat)
  | .load _ o rf => some (o, rf)
  | .fenceLoad _ o rf => some (o, rf)
  | _ => none

structure CountExec where
  A : Type
  ops : List Op                 -- the RMWs on the count in modification order
  ordR : Nat → MemOrd           -- memory ordering of the i-th RMW
  kind : A → AKind
  hb : Ev A → Ev A → Prop

/-- The fragment of RC11 / C++20 consistency the argument uses. -/
structure Consistent (X : CountExec) : Prop where
  hb_trans : ∀ {a b c}, X.hb a b → X.hb b c → X.hb a c
  hb_irrefl : ∀ a, ¬ X.hb a a
  /-- write-write coherence -/
  coWW : ∀ {i j : Nat}, X.hb (.rmw i) (.rmw j) → i < j
  /-- write-read coherence: a load cannot read a write older than one that happens-before it -/
  coWR : ∀ {i : Nat} {a : X.A} {o : MemOrd} {rf : Option Nat}, (X.kind a).loadInfo = some (o, rf) → X.hb (.rmw i) (.oth a) →
      ∃ j, rf = some j ∧ i ≤ j
  /-- release sequence of RMW `i` contains every later RMW (all later writes are RMWs, each reading
  its mo-predecessor); an acquire load reading from it synchronises. -/
  sw_load : ∀ {i j : Nat} {a : X.A} {o : MemOrd}, (X.ordR i).isRel = true → (X.kind a).loadInfo = some (o, some j) →
      o.isAcq = true → i ≤ j → X.hb (.rmw i) (.oth a)
  /-- same, the reader being an acquire RMW (it reads its mo-predecessor) -/
  sw_rmw : ∀ {i j : Nat}, (X.ordR i).isRel = true → (X.ordR j).isAcq = true → i < j → j < X.ops.length →
      X.hb (.rmw i) (.rmw j)

/-- What the ownership discipline of safe Rust and the shape of `Clone`/`drop_inner` provide. -/
structure Protocol (X : CountExec) (decOrd : MemOrd) (fenceOrd : Option MemOrd) : Prop where
  fresh : ∀ {i j : Nat} {c s s' : H}, X.ops[i]? = some (Op.inc c s) → X.ops[j]? = some (Op.inc c s') → i = j
  kid_ne_zero : ∀ {i : Nat} {c s : H}, X.ops[i]? = some (Op.inc c s) → c ≠ 0
  dec_once : ∀ {i j : Nat} {h : H}, X.ops[i]? = some (Op.dec h) → X.ops[j]? = some (Op.dec h) → i = j
  birth_before_death : ∀ {j : Nat} {h : H}, X.ops[j]? = some (Op.dec h) → h ≠ 0 →
      ∃ i s, X.ops[i]? = some (Op.inc h s) ∧ X.hb (.rmw i) (.rmw j)
  src_born : ∀ {j : Nat} {c s : H}, X.ops[j]? = some (Op.inc c s) → s ≠ 0 →
      ∃ i s', X.ops[i]? = some (Op.inc s s') ∧ X.hb (.rmw i) (.rmw j)
  src_alive : ∀ {j : Nat} {c s : H} {k : Nat}, X.ops[j]? = some (Op.inc c s) → X.ops[k]? = some (Op.dec s) →
      X.hb (.rmw j) (.rmw k)
  dec_ord : ∀ {i : Nat} {h : H}, X.ops[i]? = some (Op.dec h) → X.ordR i = decOrd
  via_real : ∀ {a : X.A} {h : H}, (X.kind a).via = some h → h = 0 ∨ h ∈ kids X.ops
  via_alive : ∀ {a : X.A} {h : H} {k : Nat}, (X.kind a).via = some h → X.ops[k]? = some (Op.dec h) →
      X.hb (.oth a) (.rmw k)
  destroy_shape : ∀ {f : X.A} {k : Nat}, X.kind f = .destroy k →
      (∃ h, X.ops[k]? = some (Op.dec h)) ∧ (run (X.ops.take k)).val = 1 ∧
      (match fenceOrd with
        | some o => ∃ l rf, X.kind l = .fenceLoad k o rf ∧ X.hb (.rmw k) (.oth l) ∧ X.hb (.oth l) (.oth f)
        | none => X.hb (.rmw k) (.oth f))
  destroy_inj : ∀ {f₁ f₂ : X.A} {k : Nat}, X.kind f₁ = .destroy k → X.kind f₂ = .destroy k → f₁ = f₂

variable {X : CountExec} {decOrd : MemOrd} {fenceOrd : Option MemOrd}

theorem mem_of_getElem? {l : List Op} {i : Nat} {o : Op} (h : l[i]? = some o) : o ∈ l :=
  List.mem_iff_getElem?.2 ⟨i, h⟩

theorem take_succ_of_get {l : List Op} {n : Nat} {o : Op} (h : l[n]? = some o) :
    l.take (n+1) = l.take n ++ [o] := by
  rw [List.take_add_one, h]; rfl

theorem mem_take_of_lt {l : List Op} {i n : Nat} {o : Op} (h : l[i]? = some o) (hi : i < n) :
    o ∈ l.take n := by
  apply List.mem_iff_getElem?.2
  exact ⟨i, by rw [List.getElem?_take, if_pos hi, h]⟩

theorem exists_lt_of_mem_take {l : List Op} {n : Nat} {o : Op} (h : o ∈ l.take n) :
    ∃ i, i < n ∧ l[i]? = some o := by
  obtain ⟨i, hi⟩ := List.mem_iff_getElem?.1 h
  rw [List.getElem?_take] at hi
  by_cases hlt : i < n
  · rw [if_pos hlt] at hi; exact ⟨i, hlt, hi⟩
  · rw [if_neg hlt] at hi; cases hi

/-- Coherence plus the ownership protocol make every prefix of the modification order a well-formed
counting history. -/
theorem wf_take (hc : Consistent X) (hp : Protocol X decOrd fenceOrd) :
    ∀ n, WF (X.ops.take n) := by
  intro n
  induction n with
  | zero => simpa using WF.nil
  | succ n ih =>
    cases hn : X.ops[n]? with
    | none =>
      have hle : X.ops.length ≤ n := by
        cases Nat.lt_or_ge n X.ops.length with
        | inl hlt => rw [List.getElem?_eq_getElem hlt] at hn; cases hn
        | inr h => exact h
      rw [List.take_of_length_le (Nat.le_succ_of_le hle)]
      rw [List.take_of_length_le hle] at ih
      exact ih
    | some o =>
      rw [take_succ_of_get hn]
      refine WF.snoc ih ?_
      obtain ⟨hl1, _⟩ := live_iff ih
      cases o with
      | inc c s =>
        refine ⟨?_, ?_⟩
        · -- the source handle is live
          rw [hl1, born_run]
          refine ⟨?_, ?_⟩
          · by_cases hs : s = 0
            · exact Or.inl hs
            · obtain ⟨i, s', hi, hhb⟩ := hp.src_born hn hs
              exact Or.inr (mem_kids.2 ⟨s', mem_take_of_lt hi (hc.coWW hhb)⟩)
          · intro hd
            obtain ⟨k, hk, hkd⟩ := exists_lt_of_mem_take (mem_deads.1 hd)
            have := hc.coWW (hp.src_alive hn hkd)
            omega
        · -- the child id is fresh
          rw [born_run]
          rintro (h0 | hk)
          · exact hp.kid_ne_zero hn h0
          · obtain ⟨s', hs'⟩ := mem_kids.1 hk
            obtain ⟨i, hi, hio⟩ := exists_lt_of_mem_take hs'
            have := hp.fresh hio hn
            omega
      | dec h =>
        show h ∈ (run (X.ops.take n)).live
        rw [hl1, born_run]
        refine ⟨?_, ?_⟩
        · by_cases hs : h = 0
          · exact Or.inl hs
          · obtain ⟨i, s, hi, hhb⟩ := hp.birth_before_death hn hs
            exact Or.inr (mem_kids.2 ⟨s, mem_take_of_lt hi (hc.coWW hhb)⟩)
        · intro hd
          obtain ⟨k, hk, hkd⟩ := exists_lt_of_mem_take (mem_deads.1 hd)
          have := hp.dec_once hkd hn
          omega

theorem wf_ops (hc : Consistent X) (hp : Protocol X decOrd fenceOrd) : WF X.ops := by
  have := wf_take hc hp X.ops.length
  rwa [List.take_length] at this

/-- The decrement that observes 1 is the last RMW on the count, ever. -/
theorem destroyer_is_last (hc : Consistent X) (hp : Protocol X decOrd fenceOrd)
    {f : X.A} {k : Nat} (hf : X.kind f = .destroy k) : k + 1 = X.ops.length := by
  obtain ⟨⟨h, hk⟩, hval, _⟩ := hp.destroy_shape hf
  have hklt : k < X.ops.length := by
    cases Nat.lt_or_ge k X.ops.length with
    | inl h => exact h
    | inr hge => rw [List.getElem?_eq_none hge] at hk; cases hk
  cases Nat.lt_or_ge (k+1) X.ops.length with
  | inr hge => omega
  | inl hlt =>
    exfalso
    -- the prefix of length k+2 is well formed, but its last op runs from value 0
    have hw := wf_take hc hp (k+2)
    have hget : X.ops[k+1]? = some X.ops[k+1] := List.getElem?_eq_getElem hlt
    rw [take_succ_of_get hget] at hw
    refine zero_is_final hw ?_
    rw [take_succ_of_get hk, run_snoc]
    simp [St.step, stepVal, hval]

theorem lt_length_of_get {l : List Op} {i : Nat} {o : Op} (h : l[i]? = some o) : i < l.length := by
  cases Nat.lt_or_ge i l.length with
  | inl h' => exact h'
  | inr hge => rw [List.getElem?_eq_none hge] at h; cases h

/-- Once the destroying decrement has run, every handle that ever existed has been released. -/
theorem all_dead (hc : Consistent X) (hp : Protocol X decOrd fenceOrd)
    {f : X.A} {k : Nat} (hf : X.kind f = .destroy k) {h : H} (hh : h = 0 ∨ h ∈ kids X.ops) :
    ∃ m : Nat, X.ops[m]? = some (Op.dec h) := by
  obtain ⟨⟨h', hk⟩, hval, _⟩ := hp.destroy_shape hf
  have hlast := destroyer_is_last hc hp hf
  have hw := wf_ops hc hp
  have hi := inv_run hw
  have hops : X.ops = X.ops.take k ++ [Op.dec h'] := by
    rw [← take_succ_of_get hk, hlast, List.take_length]
  have hv0 : (run X.ops).val = 0 := by
    rw [hops, run_snoc]; simp [St.step, stepVal, hval]
  have hl : (run X.ops).live = [] := by
    have := hi.val; rw [hv0] at this
    exact List.eq_nil_of_length_eq_zero (by omega)
  obtain ⟨hl1, _⟩ := live_iff hw
  have hnl : h ∉ (run X.ops).live := by simp [hl]
  rw [hl1, born_run] at hnl
  have hd : h ∈ deads X.ops := by
    apply Classical.byContradiction
    intro hnd
    exact hnl ⟨hh, hnd⟩
  exact List.mem_iff_getElem?.1 (mem_deads.1 hd)

/-- Every release-ordered RMW before the destroying decrement, and that decrement itself,
happen before destruction. -/
theorem sync_to_destroy (hc : Consistent X) (hp : Protocol X decOrd fenceOrd)
    (hacq : decOrd.isAcq = true ∨ ∃ o, fenceOrd = some o ∧ o.isAcq = true)
    {f : X.A} {k : Nat} (hf : X.kind f = .destroy k) :
    X.hb (.rmw k) (.oth f) ∧
    ∀ m, m < k → (X.ordR m).isRel = true → X.hb (.rmw m) (.oth f) := by
  obtain ⟨⟨h', hk⟩, _, hshape⟩ := hp.destroy_shape hf
  have hklt := lt_length_of_get hk
  cases hfo : fenceOrd with
  | none =>
    rw [hfo] at hshape
    have hkf : X.hb (.rmw k) (.oth f) := hshape
    refine ⟨hkf, ?_⟩
    intro m hm hrel
    rcases hacq with ha | ⟨o, ho, _⟩
    · have : (X.ordR k).isAcq = true := by rw [hp.dec_ord hk]; exact ha
      exact hc.hb_trans (hc.sw_rmw hrel this hm hklt) hkf
    · rw [hfo] at ho; cases ho
  | some o =>
    rw [hfo] at hshape
    obtain ⟨l, rf, hl, hkl, hlf⟩ := hshape
    have hkf : X.hb (.rmw k) (.oth f) := hc.hb_trans hkl hlf
    refine ⟨hkf, ?_⟩
    intro m hm hrel
    rcases hacq with ha | ⟨o', ho', hoa⟩
    · have : (X.ordR k).isAcq = true := by rw [hp.dec_ord hk]; exact ha
      exact hc.hb_trans (hc.sw_rmw hrel this hm hklt) hkf
    · rw [hfo] at ho'; cases ho'
      have hli : (X.kind l).loadInfo = some (o, rf) := by rw [hl]; rfl
      obtain ⟨j, hj, hkj⟩ := hc.coWR hli hkl
      subst hj
      have : X.hb (.rmw m) (.oth l) := hc.sw_load hrel hli hoa (by omega)
      exact hc.hb_trans this hlf

/-- **C02, core statement.** For every consistent execution following the protocol, if the
decrement is a release and an acquire (on the decrement or the following load) precedes
destruction, then the destroying decrement is the last RMW on the count, and every payload access,
every count access through a handle, and every other RMW happens-before the destruction. -/
theorem destroy_after_all (hc : Consistent X) (hp : Protocol X decOrd fenceOrd)
    (hrel : decOrd.isRel = true)
    (hacq : decOrd.isAcq = true ∨ ∃ o, fenceOrd = some o ∧ o.isAcq = true)
    {f : X.A} {k : Nat} (hf : X.kind f = .destroy k) :
    k + 1 = X.ops.length ∧
    (∀ a h, (X.kind a).via = some h → X.hb (.oth a) (.oth f)) ∧
    (∀ i, i < X.ops.length → i ≠ k → X.hb (.rmw i) (.oth f)) := by
  have hlast := destroyer_is_last hc hp hf
  obtain ⟨hkf, hsync⟩ := sync_to_destroy hc hp hacq hf
  -- an event that happens-before the release of some real handle happens-before destruction
  have key : ∀ (e : Ev X.A) (h : H), (h = 0 ∨ h ∈ kids X.ops) →
      (∀ m : Nat, X.ops[m]? = some (Op.dec h) → X.hb e (.rmw m)) → X.hb e (.oth f) := by
    intro e h hreal hbe
    obtain ⟨m, hm⟩ := all_dead hc hp hf hreal
    have hmlt := lt_length_of_get hm
    have hem := hbe m hm
    by_cases hmk : m = k
    · subst hmk; exact hc.hb_trans hem hkf
    · have : (X.ordR m).isRel = true := by rw [hp.dec_ord hm]; exact hrel
      exact hc.hb_trans hem (hsync m (by omega) this)
  refine ⟨hlast, ?_, ?_⟩
  · intro a h hv
    exact key _ h (hp.via_real hv) (fun m hm => hp.via_alive hv hm)
  · intro i hi hik
    have hget : X.ops[i]? = some X.ops[i] := List.getElem?_eq_getElem hi
    cases ho : X.ops[i] with
    | dec h =>
      rw [ho] at hget
      have : (X.ordR i).isRel = true := by rw [hp.dec_ord hget]; exact hrel
      exact hsync i (by omega) this
    | inc c s =>
      rw [ho] at hget
      have hreal : s = 0 ∨ s ∈ kids X.ops := by
        by_cases hs : s = 0
        · exact Or.inl hs
        · obtain ⟨j, s', hj, _⟩ := hp.src_born hget hs
          exact Or.inr (mem_kids.2 ⟨s', mem_of_getElem? hj⟩)
      exact key _ s hreal (fun m hm => hp.src_alive hget hm)

/-- **C02: exactly one destroyer.** -/
theorem destroy_unique (hc : Consistent X) (hp : Protocol X decOrd fenceOrd)
    {f₁ f₂ : X.A} {k₁ k₂ : Nat} (h₁ : X.kind f₁ = .destroy k₁) (h₂ : X.kind f₂ = .destroy k₂) :
    f₁ = f₂ := by
  have e₁ := destroyer_is_last hc hp h₁
  have e₂ := destroyer_is_last hc hp h₂
  have : k₁ = k₂ := by omega
  subst this
  exact hp.destroy_inj h₁ h₂

end WM
