import TriompheModel.Model.Heap
/-!
# M1, micro level — one Lean definition per Rust function

Each definition follows the order of the Rust body.  Implicit drops are explicit calls of `Arc.drop`;
`ManuallyDrop::new(x)` / `mem::forget(x)` / `ptr::read` are modelled as what they are: the handle
value `x` simply is not dropped, or is duplicated without touching the count.
-/
namespace M1
open LY

namespace Arc

/-- `Arc::new(data)`: `Box::new(ArcInner { count: 1, data })` -/
def new (m : Mem) (t : Ty) (v : Option Item) : Mem × HV :=
  let lay := allocLayoutBoxNew bits t.elemLay
  let (m, b) := allocBlock m lay none none [v]
  (m, ⟨.arc, t, b, 0, 0⟩)

/-- `impl Clone for Arc`: `fetch_add(1, Relaxed)`, guard (C16), new `Arc` with the same pointer -/
def clone (m : Mem) (a : HV) : Mem × HV := (incr m a.blk, { a with kind := .arc })

/-- `impl Drop for Arc`: `drop_inner` -/
def drop (m : Mem) (a : HV) : Mem := decr m a.blk a.ty (viewLen m a)

/-- `as_ptr`: `addr_of_mut!((*self.ptr()).data)` — block start plus the field offset of `data` -/
def as_ptr_off (m : Mem) (a : HV) : Nat := a.off + a.ty.dataOff (viewLen m a)

/-- `into_raw`: `ManuallyDrop::new(this); this.as_ptr()` -/
def into_raw (m : Mem) (a : HV) : HV := { a with kind := .raw, off := as_ptr_off m a }

/-- `from_raw`: `ptr.byte_sub(offset_of_data(ptr))`, then `from_raw_inner`.  `offset_of_data`
recomputes the offset as `Layout::new::<AtomicUsize>().extend(Layout::for_value(&*ptr)).unwrap().1`;
for a pointer into a block that was successfully allocated this `extend` cannot fail and equals the
compile-time field offset (`LY.offsetOfData_eq`, proved in `Proofs/Layout.lean`), so the model uses
the field offset directly. -/
def from_raw (m : Mem) (p : HV) : HV :=
  { p with kind := .arc, off := p.off - p.ty.dataOff (viewLen m p) }

/-- `heap_ptr` -/
def heap_ptr_off (a : HV) : Nat := a.off

/-- `strong_count` (Relaxed) and `count` (Acquire): sequentially both are the count word -/
def strong_count (m : Mem) (a : HV) : Nat := loadCount m a.blk
def count (m : Mem) (a : HV) : Nat := loadCount m a.blk

/-- `is_unique`: `Self::count(self) == 1` -/
def is_unique (m : Mem) (a : HV) : Bool := count m a == 1

/-- `into_raw_offset`: `OffsetArc { ptr: Arc::into_raw(a) }` -/
def into_raw_offset (m : Mem) (a : HV) : HV := { into_raw m a with kind := .offset }

/-- `from_raw_offset`: `ManuallyDrop::new(a); Arc::from_raw(a.ptr)` -/
def from_raw_offset (m : Mem) (o : HV) : HV := from_raw m { o with kind := .raw }

/-- `try_unique`: `if this.is_unique() { Ok(UniqueArc::from_arc(this)) } else { Err(this) }` -/
def try_unique (m : Mem) (a : HV) : Except HV HV :=
  if is_unique m a then .ok { a with kind := .uniq } else .error a

/-- header erasure `From<Arc<HeaderSlice<(), T>>> for Arc<T>` and back: pointer cast only -/
def erase_header (a : HV) : HV := { a with ty := .slice }
def add_unit_header (a : HV) : HV := { a with ty := .uslice }

end Arc

namespace UniqueArc
/-- `UniqueArc::new(data)` = `UniqueArc(Arc::new(data))` -/
def new (m : Mem) (t : Ty) (v : Option Item) : Mem × HV :=
  let (m, a) := Arc.new m t v
  (m, { a with kind := .uniq })

/-- `UniqueArc::new_uninit()`: `alloc(Layout::new::<ArcInner<MaybeUninit<T>>>())`, count := 1 -/
def new_uninit (m : Mem) : Mem × HV :=
  let lay := allocLayoutNewUninit bits trackedLay
  let (m, b) := allocBlock m lay none none [none]
  (m, ⟨.uniq, .mu, b, 0, 0⟩)

/-- `shareable(self) -> Arc<T>`: `self.0` -/
def shareable (u : HV) : HV := { u with kind := .arc }

/-- `into_inner`: `ManuallyDrop::new(this.0)`; `Box::from_raw(this.ptr()).data` — the value is moved
out (no destructor), the box is freed with the layout of `ArcInner<T>` -/
def into_inner (m : Mem) (u : HV) : Mem × Option Item :=
  match m.blocks[u.blk]? with
  | none => (m, none)
  | some k =>
    let rl := u.ty.releaseLayout (viewLen m u)
    (((m.upd u.blk fun k => { k with count := 0, live := false }).emit [.dealloc u.blk rl.size rl.align]),
     (k.elems.head?).join)
end UniqueArc

/-- `Arc::try_unwrap`: `Self::try_unique(this).map(UniqueArc::into_inner)` -/
def Arc.try_unwrap (m : Mem) (a : HV) : Mem × Except HV (Option Item) :=
  match Arc.try_unique m a with
  | .ok u => let (m, v) := UniqueArc.into_inner m u; (m, .ok v)
  | .error a => (m, .error a)

namespace ArcBorrow
/-- `borrow_arc`: `ArcBorrow(self.as_ptr())` -/
def of_arc (m : Mem) (a : HV) : HV := Arc.into_raw m a     -- same bit pattern as the raw pointer; not an owner
/-- `clone_arc`: `let arc = Arc::from_raw(self.0); mem::forget(arc.clone()); arc` -/
def clone_arc (m : Mem) (p : HV) : Mem × HV :=
  let arc := Arc.from_raw m p
  let (m, _forgotten) := Arc.clone m arc      -- the clone is forgotten: never dropped
  (m, arc)
end ArcBorrow

namespace OffsetArc
/-- `with_arc(|a| ..)`: the transient `ManuallyDrop(Arc::from_raw(self.ptr))` -/
def transient (m : Mem) (o : HV) : HV := Arc.from_raw m { o with kind := .raw }
/-- `clone_arc`: `with_arc(self, |a| a.clone())` -/
def clone_arc (m : Mem) (o : HV) : Mem × HV :=
  Arc.clone m (transient m o)               -- the transient itself is never dropped
/-- `impl Clone`: `Arc::into_raw_offset(self.clone_arc())` -/
def clone (m : Mem) (o : HV) : Mem × HV :=
  let (m, a) := clone_arc m o
  (m, Arc.into_raw_offset m a)
/-- `impl Drop`: `let _ = Arc::from_raw_offset(OffsetArc { ptr: self.ptr })` -/
def drop (m : Mem) (o : HV) : Mem := Arc.drop m (Arc.from_raw_offset m o)
end OffsetArc

namespace ThinArc
/-- `thin_to_thick` + `from_raw_inner`: the fat Arc a ThinArc stands for; the slice length is read
from the block -/
def thick (m : Mem) (t : HV) : HV := { t with kind := .arc, ty := .hwl, len := viewLen m t }
/-- `Arc::protected_into_thin` / `into_thin_unchecked`: pointer cast -/
def of_arc (a : HV) : HV := { a with kind := .thin, len := 0 }
/-- `impl Clone`: `with_protected_arc(self, |a| Arc::protected_into_thin(a.clone()))` -/
def clone (m : Mem) (t : HV) : Mem × HV :=
  let transient := thick m t
  let (m, a) := Arc.clone m transient
  (m, of_arc a)
/-- `impl Drop`: `let _ = Arc::protected_from_thin(ThinArc { ptr: self.ptr })` -/
def drop (m : Mem) (t : HV) : Mem := Arc.drop m (thick m t)
/-- `into_raw`: `ManuallyDrop::new(self); this.ptr()` (the block address) -/
def into_raw (t : HV) : HV := { t with kind := .rawThin }
def from_raw (p : HV) : HV := { p with kind := .thin }
end ThinArc

/-- `Arc::into_thin`: `assert_eq!(a.header.length, a.slice.len())`, then the cast.  On a mismatch
the assertion panics and `a` (an owned argument) is dropped during unwinding. -/
def Arc.into_thin (m : Mem) (a : HV) : Mem × Option HV :=
  let recd := ((m.blocks[a.blk]?.bind (·.recLen))).getD 0
  if recd = a.len then (m, some (ThinArc.of_arc a)) else (Arc.drop m a, none)

namespace ArcUnion
/-- `from_first`: `Arc::into_raw(other)` as the word -/
def from_first (m : Mem) (a : HV) : HV := { Arc.into_raw m a with kind := .unionA }
/-- `from_second`: `Arc::into_raw(other) | 1` -/
def from_second (m : Mem) (a : HV) : HV := { Arc.into_raw m a with kind := .unionB }
/-- `borrow()`: strip the tag, `ArcBorrow::from_ptr` with the variant's type -/
def borrow (u : HV) : HV := { u with kind := .raw }
/-- `impl Clone`: `from_first(x.clone_arc())` / `from_second(..)` -/
def clone (m : Mem) (u : HV) : Mem × HV :=
  let (m, a) := ArcBorrow.clone_arc m (borrow u)
  (m, if u.kind = .unionA then from_first m a else from_second m a)
/-- `impl Drop`: `let _ = Arc::from_raw(&*x)` with the variant's type -/
def drop (m : Mem) (u : HV) : Mem := Arc.drop m (Arc.from_raw m (borrow u))
end ArcUnion

/-! ### uniform dispatch over handle kinds (used by kind-preserving `clone`, `drop`, counts) -/

/-- the `Arc` a handle of any owning kind stands for (no count change) -/
def asArc (m : Mem) (h : HV) : HV :=
  match h.kind with
  | .arc | .uniq => { h with kind := .arc }
  | .thin => ThinArc.thick m h
  | .offset => OffsetArc.transient m h
  | .unionA | .unionB => Arc.from_raw m (ArcUnion.borrow h)
  | .raw => Arc.from_raw m h
  | .rawThin => ThinArc.thick m (ThinArc.from_raw h)

/-- kind-preserving `Clone::clone` (only for kinds that implement `Clone`) -/
def cloneHandle (m : Mem) (h : HV) : Option (Mem × HV) :=
  match h.kind with
  | .arc => some (Arc.clone m h)
  | .thin => some (ThinArc.clone m h)
  | .offset => some (OffsetArc.clone m h)
  | .unionA | .unionB => some (ArcUnion.clone m h)
  | _ => none

/-- `Drop::drop` of an owning handle (raw pointers have no destructor: `none`) -/
def dropHandle (m : Mem) (h : HV) : Option Mem :=
  match h.kind with
  | .arc | .uniq => some (Arc.drop m h)
  | .thin => some (ThinArc.drop m h)
  | .offset => some (OffsetArc.drop m h)
  | .unionA | .unionB => some (ArcUnion.drop m h)
  | _ => none

end M1
