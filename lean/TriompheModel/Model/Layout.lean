/-!
# M2 — layouts and addresses (definitions only; import-free so the drivers link)

Exact transcription over `Nat` of the parts of `core::alloc::Layout` that triomphe uses, with the
pointer width `bits` explicit and `Option` for the checked operations, plus the `repr(C)` struct
layout rule used on the *release* side (`Box::from_raw` on `*mut ArcInner<T>` computes
`Layout::for_value`, i.e. the type layout of `ArcInner<T>` for the pointer's metadata).

Rust rounds up with `(n + a - 1) & !(a - 1)`; for a power of two `a` this equals
`(n + a - 1) / a * a`, which is what `roundUp` uses (`Proofs/Layout.lean` proves the facts needed).
-/
namespace LY

/-- round `n` up to a multiple of `a` -/
def roundUp (n a : Nat) : Nat := (n + a - 1) / a * a

structure Layout where
  size : Nat
  align : Nat
deriving DecidableEq, Repr, Inhabited

/-- `isize::MAX - (align - 1)`: the largest size `Layout::from_size_align` accepts -/
def maxSize (bits align : Nat) : Nat := 2 ^ (bits - 1) - align

/-- `Layout::from_size_align` -/
def Layout.mk? (bits size align : Nat) : Option Layout :=
  if size ≤ maxSize bits align then some ⟨size, align⟩ else none

/-- `Layout::padding_needed_for` -/
def Layout.paddingNeededFor (l : Layout) (align : Nat) : Nat := roundUp l.size align - l.size

/-- `Layout::extend`: returns the combined layout and the offset of `next` -/
def Layout.extend (bits : Nat) (l next : Layout) : Option (Layout × Nat) :=
  let newAlign := max l.align next.align
  let offset := roundUp l.size next.align
  let newSize := offset + next.size
  if newSize ≤ maxSize bits newAlign then some (⟨newSize, newAlign⟩, offset) else none

/-- `Layout::pad_to_align` -/
def Layout.padToAlign (l : Layout) : Layout := ⟨roundUp l.size l.align, l.align⟩

/-- `Layout::array::<T>(n)` -/
def Layout.array (bits : Nat) (elem : Layout) (n : Nat) : Option Layout :=
  if elem.size * n ≤ maxSize bits elem.align then some ⟨elem.size * n, elem.align⟩ else none

/-- the layout of `usize` / `AtomicUsize` for a pointer width -/
def wordLayout (bits : Nat) : Layout := ⟨bits / 8, bits / 8⟩

/-- `repr(C)` layout of a two-field struct `{ a : A, b : B }`: (layout, offset of `b`) -/
def reprC2 (a b : Layout) : Layout × Nat :=
  let off := roundUp a.size b.align
  let al := max a.align b.align
  (⟨roundUp (off + b.size) al, al⟩, off)

/-- type layout of `[T; n]` / `[T]` with `n` elements -/
def sliceLayout (elem : Layout) (n : Nat) : Layout := ⟨elem.size * n, elem.align⟩

/-- type layout of `HeaderSlice<H, [T]>` with `n` elements (repr(C)) and the offset of the slice -/
def headerSliceLayout (h elem : Layout) (n : Nat) : Layout × Nat := reprC2 h (sliceLayout elem n)

/-- type layout of `HeaderWithLength<H>` (repr(C): header, then the `usize` length) and the offset
of the length field -/
def headerWithLengthLayout (bits : Nat) (h : Layout) : Layout × Nat := reprC2 h (wordLayout bits)

/-- release side: type layout of `ArcInner<P>` for a payload of layout `p`, and the offset of
`data` (this is also what `ArcInner::offset_of_data` recomputes from a value) -/
def arcInnerLayout (bits : Nat) (p : Layout) : Layout × Nat := reprC2 (wordLayout bits) p

/-- `ArcInner::offset_of_data`: `Layout::new::<AtomicUsize>().extend(Layout::for_value(v)).1` -/
def offsetOfData (bits : Nat) (p : Layout) : Option Nat :=
  (Layout.extend bits (wordLayout bits) p).map (·.2)

/-- request side: `Arc::allocate_for_layout(value_layout)` =
`Layout::new::<ArcInner<()>>().extend(value_layout).unwrap().0.pad_to_align()` -/
def allocLayoutFor (bits : Nat) (value : Layout) : Option Layout :=
  (Layout.extend bits (wordLayout bits) value).map (·.1.padToAlign)

/-- request side: the value layout computed by `allocate_for_header_and_slice::<H, T>(len)` =
`Layout::new::<H>().extend(Layout::array::<T>(len)?)?.0.pad_to_align()` -/
def headerSliceValueLayout (bits : Nat) (h elem : Layout) (len : Nat) : Option Layout :=
  match Layout.array bits elem len with
  | none => none
  | some arr => (Layout.extend bits h arr).map (·.1.padToAlign)

/-- request side of `allocate_for_header_and_slice` (`none` = the Rust `unwrap` panics) -/
def allocLayoutHeaderSlice (bits : Nat) (h elem : Layout) (len : Nat) : Option Layout :=
  match headerSliceValueLayout bits h elem len with
  | none => none
  | some v => allocLayoutFor bits v

/-- `Layout::new::<ArcInner<MaybeUninit<T>>>()` as used by `UniqueArc::new_uninit` -/
def allocLayoutNewUninit (bits : Nat) (t : Layout) : Layout := (arcInnerLayout bits t).1

/-- `Box::new(ArcInner { count, data })` as used by `Arc::new` -/
def allocLayoutBoxNew (bits : Nat) (t : Layout) : Layout := (arcInnerLayout bits t).1

/-- the unit layout `()` -/
def unitLayout : Layout := ⟨0, 1⟩

/-- ArcUnion's tag -/
def tagSecond (addr : Nat) : Nat := addr ||| 1
/-- `addr & !1` (clearing bit 0), written arithmetically -/
def untag (addr : Nat) : Nat := addr / 2 * 2
def isFirst (addr : Nat) : Bool := addr % 2 == 0

end LY
