import TriompheModel.Proofs.Ctor
import TriompheModel.Proofs.HistLemmasLog
/-!
# The value-level invariant of the handle machine: definitions and memory primitives
(helper file 1 for `Proofs/HistVal.lean`)

`ValInvM seen m`: no identity is destroyed twice (`.drop` events), identities stored in live blocks
are pairwise distinct and have not been destroyed, and every identity that is stored or destroyed
was handed in by the caller (`seen`) or created by `Clone` (`1000000 ≤ i < nextClone`).
This file proves that each primitive change of memory preserves it.
-/
namespace M1
open LY

/-- first identity `Clone` hands out (`State.init.mem.nextClone`) -/
def cloneBase : Nat := 1000000

def optId (o : Option Item) : List Nat :=
  match o with
  | some x => [x.id]
  | none => []

/-- identities of the written slots, in order -/
def elemIds (l : List (Option Item)) : List Nat := l.filterMap fun e => e.map (·.id)

/-- identities stored in a block: the header's, then those of the written slots -/
def Block.ids (k : Block) : List Nat := optId k.hdr ++ elemIds k.elems

theorem elemIds_cons (a : Option Item) (l : List (Option Item)) : elemIds (a :: l) = optId a ++ elemIds l := by
  cases a <;> simp [elemIds, optId]

theorem elemIds_append (a b : List (Option Item)) : elemIds (a ++ b) = elemIds a ++ elemIds b := by
  simp [elemIds, List.filterMap_append]

theorem elemIds_map_some (vs : List Item) : elemIds (vs.map some) = vs.map (·.id) := by
  induction vs with
  | nil => rfl
  | cons v r ih => rw [List.map_cons, elemIds_cons, ih]; rfl

theorem elemIds_replicate_none (n : Nat) : elemIds (List.replicate n none) = [] := by
  induction n with
  | zero => rfl
  | succ n ih => rw [List.replicate_succ, elemIds_cons, ih]; rfl

theorem elemIds_take_sublist (l : List (Option Item)) (n : Nat) : (elemIds (l.take n)).Sublist (elemIds l) :=
  (List.take_sublist n l).filterMap _

theorem elemIds_take_of_le {l : List (Option Item)} {n : Nat} (h : l.length ≤ n) : elemIds (l.take n) = elemIds l := by
  rw [List.take_of_length_le h]

/-! ## what a payload destructor destroys -/

theorem dropIds_cons_drop (i : Nat) (es : List Event) : dropIds (Event.drop i :: es) = i :: dropIds es := rfl
theorem dropIds_cons_dropUninit (b i : Nat) (es : List Event) :
    dropIds (Event.dropUninit b i :: es) = dropIds es := rfl

theorem dropIds_zipIdx (b : Nat) (F : Option Item × Nat → Event)
    (hs : ∀ it i, F (some it, i) = Event.drop it.id) (hn : ∀ i, F (none, i) = Event.dropUninit b i)
    (l : List (Option Item)) (n : Nat) :
    dropIds ((l.zipIdx n).map F) = elemIds l := by
  induction l generalizing n with
  | nil => rfl
  | cons a r ih =>
    rw [List.zipIdx_cons, List.map_cons, elemIds_cons]
    cases a with
    | none => simp only [hn, dropIds_cons_dropUninit, ih, optId, List.nil_append]
    | some it => simp only [hs, dropIds_cons_drop, ih, optId, List.singleton_append]

theorem dropIds_payloadDrops (b : Nat) (k : Block) (t : Ty) (len : Nat) :
    dropIds (payloadDrops b k t len) =
      optId k.hdr ++ (if t.elemsInit then elemIds (k.elems.take len) else []) := by
  unfold payloadDrops
  rw [dropIds_append]
  congr 1
  · cases k.hdr <;> rfl
  · split
    · exact dropIds_zipIdx b _ (fun _ _ => rfl) (fun _ => rfl) _ 0
    · rfl

/-- a destructor destroys only identities stored in the block, each at most once -/
theorem dropIds_payloadDrops_sublist (b : Nat) (k : Block) (t : Ty) (len : Nat) :
    (dropIds (payloadDrops b k t len)).Sublist k.ids := by
  rw [dropIds_payloadDrops]
  apply List.Sublist.append (List.Sublist.refl _)
  split
  · exact elemIds_take_sublist _ _
  · exact List.nil_sublist _

/-- through an initialised view of the whole payload it destroys exactly the stored identities -/
theorem dropIds_payloadDrops_exact (b : Nat) (k : Block) {t : Ty} {len : Nat} (ht : t.elemsInit = true)
    (hlen : k.elems.length ≤ len) : dropIds (payloadDrops b k t len) = k.ids := by
  rw [dropIds_payloadDrops, ht, if_pos rfl, elemIds_take_of_le hlen]; rfl

/-! ## the invariant -/

structure ValInvM (seen : List Nat) (m : Mem) : Prop where
  /-- a freed block has count word 0 -/
  dz : ∀ (b : Nat) (k : Block), m.blocks[b]? = some k → k.live = false → k.count = 0
  /-- no value is destroyed twice -/
  drops_nodup : (dropIds m.log).Nodup
  /-- a live (not abandoned) block stores each identity once -/
  ids_nodup : ∀ (b : Nat) (k : Block), m.blocks[b]? = some k → k.live = true → k.leaked = false → k.ids.Nodup
  /-- two live blocks (abandoned ones included) store different identities -/
  disjoint : ∀ (b b' : Nat) (k k' : Block), b ≠ b' → m.blocks[b]? = some k → m.blocks[b']? = some k' →
      k.live = true → k'.live = true → ∀ i, i ∈ k.ids → i ∉ k'.ids
  /-- what is stored in a live block (abandoned ones included) has not been destroyed -/
  placed_not_dropped : ∀ (b : Nat) (k : Block), m.blocks[b]? = some k → k.live = true →
      ∀ i, i ∈ k.ids → i ∉ dropIds m.log
  /-- every identity stored anywhere or destroyed was handed in or created by `Clone` -/
  known : ∀ i, (i ∈ dropIds m.log ∨ ∃ (b : Nat) (k : Block), m.blocks[b]? = some k ∧ i ∈ k.ids) →
      i ∈ seen ∨ (cloneBase ≤ i ∧ i < m.nextClone)
  /-- identities handed in are below the `Clone` range -/
  seen_lt : ∀ i, i ∈ seen → i < cloneBase
  clone_bound : cloneBase ≤ m.nextClone

/-- `i` occurs nowhere in `m` (not stored, not destroyed) and may legitimately appear -/
def FreshIn (seen : List Nat) (m : Mem) (i : Nat) : Prop :=
  i ∉ dropIds m.log ∧ (∀ (b : Nat) (k : Block), m.blocks[b]? = some k → i ∉ k.ids) ∧
    (i ∈ seen ∨ (cloneBase ≤ i ∧ i < m.nextClone))

namespace ValInvM
variable {seen : List Nat} {m : Mem}

theorem init : ValInvM [] State.init.mem where
  dz := fun b k h => by simp [State.init] at h
  drops_nodup := by simp [State.init, dropIds]
  ids_nodup := fun b k h => by simp [State.init] at h
  disjoint := fun b b' k k' _ h => by simp [State.init] at h
  placed_not_dropped := fun b k h => by simp [State.init] at h
  known := by
    intro i h
    rcases h with h | ⟨b, k, h, _⟩
    · simp [State.init, dropIds] at h
    · simp [State.init] at h
  seen_lt := fun i h => by cases h
  clone_bound := Nat.le_refl _

/-- more identities handed in -/
theorem weaken (hv : ValInvM seen m) {seen' : List Nat} (hsub : ∀ i, i ∈ seen → i ∈ seen')
    (hlt : ∀ i, i ∈ seen' → i < cloneBase) : ValInvM seen' m :=
  { hv with
    known := fun i h => (hv.known i h).imp (hsub i) id
    seen_lt := hlt }

/-- an identity not handed in so far and below the `Clone` range occurs nowhere -/
theorem fresh_of_new (hv : ValInvM seen m) {seen' : List Nat} {i : Nat} (hi : i ∉ seen) (hlt : i < cloneBase)
    (hin : i ∈ seen') : FreshIn seen' m i := by
  refine ⟨?_, ?_, Or.inl hin⟩
  · intro h
    rcases hv.known i (Or.inl h) with h' | h'
    · exact hi h'
    · omega
  · intro b k hk h
    rcases hv.known i (Or.inr ⟨b, k, hk, h⟩) with h' | h'
    · exact hi h'
    · omega

/-- only the log changed, by events other than `.drop`, and `nextClone` did not decrease -/
theorem log_only (hv : ValInvM seen m) {m' : Mem} (hb : m'.blocks = m.blocks)
    (hl : dropIds m'.log = dropIds m.log) (hn : m.nextClone ≤ m'.nextClone) : ValInvM seen m' where
  dz := by rw [hb]; exact hv.dz
  drops_nodup := by rw [hl]; exact hv.drops_nodup
  ids_nodup := by rw [hb]; exact hv.ids_nodup
  disjoint := by rw [hb]; exact hv.disjoint
  placed_not_dropped := by rw [hb, hl]; exact hv.placed_not_dropped
  known := by
    rw [hb, hl]
    intro i h
    rcases hv.known i h with h' | h'
    · exact Or.inl h'
    · exact Or.inr ⟨h'.1, by omega⟩
  seen_lt := hv.seen_lt
  clone_bound := by have := hv.clone_bound; omega

/-- one block rewritten by `f`: it may die, be abandoned, lose identities, or gain fresh ones -/
theorem upd (hv : ValInvM seen m) (b : Nat) (f : Block → Block) (extra : List Nat)
    (hex : ∀ i, i ∈ extra → FreshIn seen m i)
    (hf : ∀ k, m.blocks[b]? = some k →
      ((f k).live = true → k.live = true) ∧ ((f k).leaked = false → k.leaked = false) ∧
      ((f k).live = false → (k.live = false → k.count = 0) → (f k).count = 0) ∧
      (∀ i, i ∈ (f k).ids → i ∈ k.ids ∨ i ∈ extra) ∧ (k.ids.Nodup → (f k).ids.Nodup)) :
    ValInvM seen (m.upd b f) := by
  have hget : ∀ (j : Nat) (k' : Block), (m.upd b f).blocks[j]? = some k' →
      ∃ k : Block, m.blocks[j]? = some k ∧ ((j = b ∧ k' = f k) ∨ (j ≠ b ∧ k' = k)) := by
    intro j k' hk'
    rw [upd_get] at hk'
    cases hk : m.blocks[j]? with
    | none => rw [hk] at hk'; cases hk'
    | some k =>
      rw [hk] at hk'
      simp only [Option.map_some, Option.some.injEq] at hk'
      by_cases hbj : b = j
      · subst hbj; simp only [if_true] at hk'; exact ⟨k, rfl, Or.inl ⟨rfl, hk'.symm⟩⟩
      · simp only [hbj, if_false] at hk'; exact ⟨k, rfl, Or.inr ⟨fun e => hbj e.symm, hk'.symm⟩⟩
  -- identities of a new block are old identities of the same block, or fresh
  have hids : ∀ (j : Nat) (k' : Block), (m.upd b f).blocks[j]? = some k' → k'.live = true →
      ∃ k : Block, m.blocks[j]? = some k ∧ k.live = true ∧ ∀ i, i ∈ k'.ids → i ∈ k.ids ∨ i ∈ extra := by
    intro j k' hk' hl
    obtain ⟨k, hk, h | h⟩ := hget j k' hk'
    · obtain ⟨rfl, rfl⟩ := h
      obtain ⟨h1, _, _, h4, _⟩ := hf k hk
      exact ⟨k, hk, h1 hl, h4⟩
    · obtain ⟨_, rfl⟩ := h
      exact ⟨k', hk, hl, fun i hi => Or.inl hi⟩
  refine ⟨?_, hv.drops_nodup, ?_, ?_, ?_, ?_, hv.seen_lt, hv.clone_bound⟩
  · intro j k' hk' hl
    obtain ⟨k, hk, h | h⟩ := hget j k' hk'
    · obtain ⟨rfl, rfl⟩ := h
      exact (hf k hk).2.2.1 hl (hv.dz j k hk)
    · obtain ⟨_, rfl⟩ := h
      exact hv.dz j k' hk hl
  · intro j k' hk' hl hlk
    obtain ⟨k, hk, h | h⟩ := hget j k' hk'
    · obtain ⟨rfl, rfl⟩ := h
      obtain ⟨h1, h2, _, _, h5⟩ := hf k hk
      exact h5 (hv.ids_nodup j k hk (h1 hl) (h2 hlk))
    · obtain ⟨_, rfl⟩ := h
      exact hv.ids_nodup j k' hk hl hlk
  · intro j j' k1 k2 hne hk1 hk2 hl1 hl2 i hi1 hi2
    obtain ⟨k1o, hk1o, hl1o, hs1⟩ := hids j k1 hk1 hl1
    obtain ⟨k2o, hk2o, hl2o, hs2⟩ := hids j' k2 hk2 hl2
    rcases hs1 i hi1 with h1 | h1
    · rcases hs2 i hi2 with h2 | h2
      · exact hv.disjoint j j' k1o k2o hne hk1o hk2o hl1o hl2o i h1 h2
      · exact (hex i h2).2.1 j k1o hk1o h1
    · rcases hs2 i hi2 with h2 | h2
      · exact (hex i h1).2.1 j' k2o hk2o h2
      · -- both fresh: then `i` sits in both new blocks, one of which is unchanged
        obtain ⟨ka, hka, ha | ha⟩ := hget j k1 hk1
        · obtain ⟨kb, hkb, hb | hb⟩ := hget j' k2 hk2
          · exact hne (ha.1.trans hb.1.symm)
          · obtain ⟨_, rfl⟩ := hb
            exact (hex i h1).2.1 j' k2 hkb hi2
        · obtain ⟨_, rfl⟩ := ha
          exact (hex i h1).2.1 j k1 hka hi1
  · intro j k' hk' hl i hi
    obtain ⟨k, hk, hlo, hs⟩ := hids j k' hk' hl
    rcases hs i hi with h | h
    · exact hv.placed_not_dropped j k hk hlo i h
    · exact (hex i h).1
  · intro i h
    rcases h with h | ⟨j, k', hk', hi⟩
    · exact hv.known i (Or.inl h)
    · obtain ⟨k, hk, h | h⟩ := hget j k' hk'
      · obtain ⟨rfl, rfl⟩ := h
        rcases (hf k hk).2.2.2.1 i hi with h | h
        · exact hv.known i (Or.inr ⟨j, k, hk, h⟩)
        · exact (hex i h).2.2
      · obtain ⟨_, rfl⟩ := h
        exact hv.known i (Or.inr ⟨j, k', hk, hi⟩)

/-- events appended whose `.drop` identities are distinct, not destroyed before, not stored in any
live block, and known -/
theorem emit_drops (hv : ValInvM seen m) (D : List Event) (hn : (dropIds D).Nodup)
    (hnew : ∀ i, i ∈ dropIds D → i ∉ dropIds m.log ∧
      (∀ (b : Nat) (k : Block), m.blocks[b]? = some k → k.live = true → i ∉ k.ids) ∧
      (i ∈ seen ∨ (cloneBase ≤ i ∧ i < m.nextClone))) :
    ValInvM seen (m.emit D) := by
  have hlog : dropIds (m.emit D).log = dropIds m.log ++ dropIds D := dropIds_append _ _
  refine ⟨hv.dz, ?_, hv.ids_nodup, hv.disjoint, ?_, ?_, hv.seen_lt, hv.clone_bound⟩
  · rw [hlog, List.nodup_append]
    refine ⟨hv.drops_nodup, hn, ?_⟩
    intro a ha c hc hac
    subst hac
    exact (hnew a hc).1 ha
  · intro b k hk hl i hi
    rw [hlog, List.mem_append]
    rintro (h | h)
    · exact hv.placed_not_dropped b k hk hl i hi h
    · exact (hnew i h).2.1 b k hk hl hi
  · intro i h
    rw [hlog, List.mem_append] at h
    rcases h with (h | h) | h
    · exact hv.known i (Or.inl h)
    · exact (hnew i h).2.2
    · exact hv.known i (Or.inr h)

/-- a new block whose identities are fresh, and events without `.drop` -/
theorem append_block (hv : ValInvM seen m) (k0 : Block) (es : List Event) (hes : dropIds es = [])
    (hcount : k0.live = false → k0.count = 0)
    (hnod : k0.live = true → k0.leaked = false → k0.ids.Nodup)
    (hfresh : ∀ i, i ∈ k0.ids → FreshIn seen m i) :
    ValInvM seen ⟨m.blocks ++ [k0], m.log ++ es, m.nextClone⟩ := by
  have hlog : dropIds (m.log ++ es) = dropIds m.log := by rw [dropIds_append, hes, List.append_nil]
  have hget : ∀ (j : Nat) (k : Block), (m.blocks ++ [k0])[j]? = some k →
      (m.blocks[j]? = some k) ∨ (j = m.blocks.length ∧ k = k0) := by
    intro j k hk
    rcases Nat.lt_or_ge j m.blocks.length with hlt | hge
    · rw [List.getElem?_append_left hlt] at hk; exact Or.inl hk
    · rw [List.getElem?_append_right hge] at hk
      rcases Nat.eq_or_lt_of_le hge with h | h
      · rw [← h] at hk
        simp only [Nat.sub_self, List.getElem?_cons_zero, Option.some.injEq] at hk
        exact Or.inr ⟨h.symm, hk.symm⟩
      · rw [List.getElem?_eq_none (by simp; omega)] at hk; cases hk
  have hold : ∀ (j : Nat) (k : Block), m.blocks[j]? = some k → j ≠ m.blocks.length := by
    intro j k hk
    have := (List.getElem?_eq_some_iff.1 hk).1
    omega
  refine ⟨?_, ?_, ?_, ?_, ?_, ?_, hv.seen_lt, hv.clone_bound⟩
  · intro j k hk hl
    rcases hget j k hk with h | ⟨_, rfl⟩
    · exact hv.dz j k h hl
    · exact hcount hl
  · show (dropIds (m.log ++ es)).Nodup
    rw [hlog]; exact hv.drops_nodup
  · intro j k hk hl hlk
    rcases hget j k hk with h | ⟨_, rfl⟩
    · exact hv.ids_nodup j k h hl hlk
    · exact hnod hl hlk
  · intro j j' k1 k2 hne hk1 hk2 hl1 hl2 i hi1 hi2
    rcases hget j k1 hk1 with h1 | ⟨rfl, rfl⟩
    · rcases hget j' k2 hk2 with h2 | ⟨rfl, rfl⟩
      · exact hv.disjoint j j' k1 k2 hne h1 h2 hl1 hl2 i hi1 hi2
      · exact (hfresh i hi2).2.1 j k1 h1 hi1
    · rcases hget j' k2 hk2 with h2 | ⟨rfl, rfl⟩
      · exact (hfresh i hi1).2.1 j' k2 h2 hi2
      · exact hne rfl
  · intro j k hk hl i hi
    show i ∉ dropIds (m.log ++ es)
    rw [hlog]
    rcases hget j k hk with h | ⟨_, rfl⟩
    · exact hv.placed_not_dropped j k h hl i hi
    · exact (hfresh i hi).1
  · intro i h
    show i ∈ seen ∨ (cloneBase ≤ i ∧ i < m.nextClone)
    rcases h with h | ⟨j, k, hk, hi⟩
    · have h' : i ∈ dropIds (m.log ++ es) := h
      rw [hlog] at h'
      exact hv.known i (Or.inl h')
    · rcases hget j k hk with h | ⟨_, rfl⟩
      · exact hv.known i (Or.inr ⟨j, k, h, hi⟩)
      · exact (hfresh i hi).2.2

end ValInvM

end M1
