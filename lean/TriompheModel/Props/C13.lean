import TriompheModel.Proofs.AutoTraits
import TriompheModel.Generated.Traits
import TriompheModel.Generated.Signatures
/-!
# C13 — thread-safety and borrow lifetimes are enforced by the type system

The theorems are about the model M7 (`Model/AutoTraits.lean`: rustc's auto-trait resolution and
lifetime elision / signature-level outlives) **instantiated at the tables the translator read out of
`<repo>/src` on this run** (`Generated.structs`, `Generated.autoImpls`, `Generated.sigs`).  The tables
are finite and regenerated on every run, so `decide` over them is a legitimate proof; if a bound on
an `unsafe impl Send/Sync` is relaxed, a lifetime on a borrow accessor widened, or a callback bound
stops being higher-ranked, the corresponding `decide` evaluates to `false` and this file stops
compiling.  The quantified statements ("for every class assignment", "for every extracted
signature") follow from the table checks by the general lemmas of `Proofs/AutoTraits.lean`.

"For all payload types `T`" is covered by `C13_class_abstraction_complete`: the extracted bound
language cannot tell two types of the same `(send?, sync?, sized?)` class apart, so the 8 classes (64
assignments for two-parameter kinds) are exhaustive.

Lifetime half is PARTIAL by design: M7 models elision and the outlives relation a signature implies,
not the borrow checker.  The rustc probes (`vlib/props/c13.py`) tie both halves to the compiler.
-/
open FactsTraits AutoTraits
namespace C13

/-- the tables of this run -/
def T : Tables := ⟨Generated.structs, Generated.autoImpls⟩

def kindPresent (K : String) : Bool := arity T K != 0

/-! ## auto traits -/

/-- every `Send`/`Sync` impl in the crate has the understood shape: `unsafe impl<P..> Tr for K<P..>`
with bounds only from {`Send`, `Sync`, `?Sized`, `Sized`, `P: 'l` for a lifetime argument of `K`}, no
negative impls, no `where` predicates on compound types -/
theorem C13_bound_language_ok : boundLanguageOk T = true := by decide

/-- Box-like impls are only allowed on `UniqueArc`; every other type with an explicit impl must be one
of the shared handle kinds checked below (a new `unsafe impl Send for X` on an unlisted type fails here) -/
def explicitOnlyOnKnown : Bool :=
  Generated.autoImpls.all (fun i =>
    ["ArcInner", "Arc", "ThinArc", "OffsetArc", "ArcBorrow", "ArcUnion", "UniqueArc"].contains i.selfTy)
theorem C13_explicit_impls_only_on_handles : explicitOnlyOnKnown = true := by decide

theorem C13_Arc_table : (kindPresent "Arc" && hasExplicit T "Arc" && sharedKindOk T "Arc") = true := by decide
theorem C13_ArcInner_table : (kindPresent "ArcInner" && hasExplicit T "ArcInner" && sharedKindOk T "ArcInner") = true := by decide
theorem C13_ThinArc_table : (kindPresent "ThinArc" && hasExplicit T "ThinArc" && sharedKindOk T "ThinArc") = true := by decide
theorem C13_OffsetArc_table : (kindPresent "OffsetArc" && hasExplicit T "OffsetArc" && sharedKindOk T "OffsetArc") = true := by decide
theorem C13_ArcBorrow_table : (kindPresent "ArcBorrow" && hasExplicit T "ArcBorrow" && sharedKindOk T "ArcBorrow") = true := by decide
theorem C13_ArcUnion_table : (kindPresent "ArcUnion" && hasExplicit T "ArcUnion" && sharedKindOk T "ArcUnion") = true := by decide
/-- no explicit impl: resolved structurally through `ArcBorrow` -/
theorem C13_ArcUnionBorrow_table : (kindPresent "ArcUnionBorrow" && sharedKindOk T "ArcUnionBorrow") = true := by decide
theorem C13_UniqueArc_table : (kindPresent "UniqueArc" && hasExplicit T "UniqueArc" && uniqueKindOk T "UniqueArc") = true := by decide
/-- the header types are plain data: no explicit impl, component-wise -/
theorem C13_header_types_table :
    (plainKindOk T "HeaderSlice" && plainKindOk T "HeaderWithLength" &&
     plainKindOk T "HeaderSliceWithLengthProtected") = true := by decide

/-- the shared handle kinds of the property statement -/
def sharedKinds : List String := ["Arc", "ThinArc", "OffsetArc", "ArcBorrow", "ArcUnion", "ArcInner", "ArcUnionBorrow"]

theorem sharedKinds_ok : sharedKinds.all (fun K => kindPresent K && sharedKindOk T K) = true := by
  have h1 := C13_Arc_table; have h2 := C13_ThinArc_table; have h3 := C13_OffsetArc_table
  have h4 := C13_ArcBorrow_table; have h5 := C13_ArcUnion_table; have h6 := C13_ArcInner_table
  have h7 := C13_ArcUnionBorrow_table
  simp only [Bool.and_eq_true] at h1 h2 h3 h4 h5 h6 h7
  simp [sharedKinds, h1, h2, h3, h4, h5, h6, h7]

/-- **Send/Sync table.**  For each of Arc, ThinArc, OffsetArc, ArcBorrow, ArcUnion (and ArcInner,
ArcUnionBorrow) and **every** assignment of classes to its type parameters that the struct
declaration admits: the handle is `Send` iff it is `Sync` iff every payload type is both `Send` and
`Sync`. -/
theorem C13_send_sync_table (K : String) (hK : K ∈ sharedKinds) (cs : List Class)
    (hlen : cs.length = arity T K) (hwf : wfArgs T K cs = true) :
    isSend T K cs = cs.all (fun c => c.send && c.sync) ∧
    isSync T K cs = cs.all (fun c => c.send && c.sync) := by
  have h := List.all_eq_true.mp sharedKinds_ok K hK
  rw [Bool.and_eq_true] at h
  exact shared_of_ok T K h.2 cs hlen hwf

/-- **UniqueArc** follows `Box`: `Send` iff the payload is `Send`, `Sync` iff the payload is `Sync`,
for every class (sized or not). -/
theorem C13_unique_send_sync (c : Class) :
    isSend T "UniqueArc" [c] = c.send ∧ isSync T "UniqueArc" [c] = c.sync := by
  have h := C13_UniqueArc_table
  simp only [Bool.and_eq_true] at h
  have hw : wfArgs T "UniqueArc" [c] = true := by
    cases c with
    | mk a b s => cases a <;> cases b <;> cases s <;> decide
  have := unique_of_ok T "UniqueArc" h.2 [c] (by show 1 = _; decide) hw
  simpa using this

/-- the one-parameter shared kinds, unfolded: e.g. `Arc<T>: Send ⇔ T: Send + Sync` for every class of
`T` (including unsized `T`, which `Arc`, `ArcBorrow`, `ArcInner` admit) -/
theorem C13_Arc_send_sync (c : Class) :
    isSend T "Arc" [c] = (c.send && c.sync) ∧ isSync T "Arc" [c] = (c.send && c.sync) := by
  have hw : wfArgs T "Arc" [c] = true := by
    cases c with
    | mk a b s => cases a <;> cases b <;> cases s <;> decide
  have := C13_send_sync_table "Arc" (by decide) [c] (by show 1 = _; decide) hw
  simpa using this

/-- **Completeness of the class abstraction** (general, not table-specific): for any bound set in the
extracted fragment and any type — modelled as an arbitrary record of its observable capabilities,
`AbsType` — the bound set's truth on the type equals the model's verdict on the type's class. -/
theorem C13_class_abstraction_complete (lts : List String) (bs : List Bound)
    (hfrag : bs.all (Bound.classOnly lts) = true) (t : AbsType) (hwf : t.wfFor lts) :
    t.satisfiesAll bs = boundsHold lts bs t.cls :=
  class_abstraction_complete lts bs hfrag t hwf

/-- … and every bound set that actually occurs in the generated impl table is in that fragment -/
theorem C13_generated_bounds_in_fragment :
    ∀ i ∈ Generated.autoImpls, ∀ p ∈ typeParams i.params, p.bounds.all (Bound.classOnly i.selfLts) = true := by
  intro i hi p hp
  have h := List.all_eq_true.mp C13_bound_language_ok i hi
  unfold implWellFormed at h
  simp only [Bool.and_eq_true] at h
  exact List.all_eq_true.mp h.2 p hp

/-- generic instantiation: bound sets are monotone in the class, so `fn f<T: B>()` is decided at the
least class satisfying `B` -/
theorem C13_bounds_monotone (lts : List String) (bs : List Bound) (c d : Class) (h : Class.le c d)
    (hc : boundsHold lts bs c = true) : boundsHold lts bs d = true :=
  boundsHold_mono lts bs c d h hc

/-! ## ownership and lifetime markers -/

/-- Each owning handle mentions every type parameter in an *owning* field type (`PhantomData<T>`,
`PhantomData<(H, T)>`, `T` itself, or `Arc<T>` inside `UniqueArc`), so drop-check and variance treat the
handle as an owner of its payload: a handle cannot outlive data its payload borrows. -/
theorem C13_ownership_markers :
    (ownsAll T "Arc" && ownsAll T "ThinArc" && ownsAll T "OffsetArc" && ownsAll T "ArcUnion" &&
     ownsAll T "UniqueArc" && ownsAll T "ArcInner") = true := by decide

/-- `ArcBorrow<'a, T>` carries `PhantomData<&'a T>`; `ArcUnionBorrow<'a, A, B>` is an enum of
`ArcBorrow<'a, _>` at its own lifetime. -/
theorem C13_borrow_markers :
    (borrowMarker T "ArcBorrow" && borrowEnumMarker T "ArcUnionBorrow") = true := by decide

/-! ## borrow signatures -/

theorem C13_sigs_table : sigsBounded Generated.sigs = true := by decide
theorem C13_callbacks_table : callbacksHigherRanked Generated.sigs = true := by decide

/-- **Every extracted borrow-returning signature that safe client code can call** (`pub`, not
`unsafe`; `Deref`/`DerefMut`/`Borrow`/`AsRef` methods included) ties every region of its return type
to the `&self` / `&mut self` / `this: &Self` borrow or to a lifetime parameter of the `Self` type; none
is `'static` over the payload and none is a fresh method-level lifetime. -/
theorem C13_borrow_regions_bounded (s : Sig) (hs : s ∈ Generated.sigs)
    (hp : s.isPub = true) (hu : s.isUnsafe = false) : regionBounded s = true :=
  bounded_of_ok Generated.sigs C13_sigs_table s hs hp hu

/-- **Every callback bound** of such a function (`with_arc`, `with_arc_mut`, `with_raw_offset_arc`, …)
is higher-ranked in the region of the reference handed to the callback. -/
theorem C13_callbacks_higher_ranked (s : Sig) (hs : s ∈ Generated.sigs)
    (hp : s.isPub = true) (hu : s.isUnsafe = false) (cb : Callback) (hcb : cb ∈ s.callbacks) :
    higherRanked cb = true :=
  hr_of_ok Generated.sigs C13_callbacks_table s hs hp hu cb hcb

/-- the accessors the property names are among the extracted signatures (so the two theorems above
are not vacuous about them), and there is at least one callback-taking function -/
def namedAccessors : List String :=
  ["Arc::deref", "Arc::borrow_arc", "Arc::get_mut", "Arc::make_mut", "ArcBorrow::get", "ArcBorrow::deref"]
theorem C13_named_accessors_extracted :
    (namedAccessors.all (fun k => Generated.sigs.any (fun s => s.key == k && s.obligated && !s.outRegions.isEmpty)) &&
     Generated.sigs.any (fun s => s.obligated && s.callbacks.any (fun cb => !cb.argRegions.isEmpty))) = true := by
  decide

/-- **Unsizing a borrow keeps its region** (feature `unsize`): the safe `CoerceUnsize::unsize` returns whatever
`CoerciblePtr::replace_ptr` returns; for `ArcBorrow<'lt, T>` that output must stay tied to `'lt` (a Self lifetime), so
the coerced `ArcBorrow<'lt, dyn Trait>` / `ArcBorrow<'lt, [T]>` cannot outlive the Arc it was borrowed from.  The impl
is among the extracted signatures, is obligated although the trait method is `unsafe`, and is bounded. -/
theorem C13_unsize_keeps_region :
    Generated.sigs.any (fun s => s.key == "ArcBorrow::replace_ptr" && s.trait_ == "CoerciblePtr" && s.obligated &&
      !s.outRegions.isEmpty && regionBounded s) = true ∧
    (Generated.sigs.filter (fun s => s.trait_ == "CoerciblePtr")).all (fun s => s.obligated && regionBounded s) = true := by
  decide

/-! ## non-vacuity: the checks accept and reject -/

-- witnesses of each class at the generated tables
example : isSend T "Arc" [⟨true, true, true⟩] = true := by decide
example : isSend T "Arc" [⟨true, false, true⟩] = false := by decide      -- `Arc<Cell<u32>>` is not Send
example : isSync T "Arc" [⟨false, true, true⟩] = false := by decide
example : isSend T "Arc" [⟨true, true, false⟩] = true := by decide       -- `Arc<[u32]>`
example : isSend T "UniqueArc" [⟨true, false, true⟩] = true := by decide -- `UniqueArc<Cell<u32>>` is Send …
example : isSync T "UniqueArc" [⟨true, false, true⟩] = false := by decide -- … but not Sync
example : isSend T "ThinArc" [⟨true, true, true⟩, ⟨true, false, true⟩] = false := by decide
example : isSend T "ArcUnionBorrow" [⟨true, true, true⟩, ⟨true, true, true⟩] = true := by decide
example : wfArgs T "OffsetArc" [⟨true, true, false⟩] = false := by decide  -- `OffsetArc<[u32]>` is not a type

/-- a mutated table (the `Sync` bound dropped from `impl Send for Arc`) is rejected by the same check -/
def mutantTables : Tables :=
  ⟨Generated.structs,
   Generated.autoImpls.map (fun i =>
     if i.selfTy == "Arc" && i.trait_ == .send then
       { i with params := [⟨"T", .type, [.send, .qsized]⟩] } else i)⟩
example : sharedKindOk mutantTables "Arc" = false := by decide
example : isSend mutantTables "Arc" [⟨true, false, true⟩] = true := by decide

/-- without any explicit impl the raw pointer makes the handle neither `Send` nor `Sync` -/
example : isSend ⟨Generated.structs, []⟩ "Arc" [⟨true, true, true⟩] = false := by decide

-- an arbitrary type meeting the hypotheses of the abstraction lemma, distinguishable from its class
def witnessTy : AbsType := ⟨true, false, true, fun l => l == "a", false, fun s => s == "Clone"⟩
example : witnessTy.wfFor ["a"] := by
  intro l h
  simp only [List.contains_cons, List.contains_nil, Bool.or_false] at h
  simpa [witnessTy] using h
example : witnessTy.satisfiesAll [.send, .qsized, .outlives "a"] = true := by decide
example : witnessTy.satisfiesAll [.send, .sync] = false := by decide

-- signatures: the bad cases of the property, and harmless rewrites of the good ones
def sigBase : Sig :=
  { file := "x.rs", line := 1, key := "Arc::borrow_arc", selfTy := "Arc<T>", trait_ := "", isPub := true, isUnsafe := false,
    implLts := [], selfLts := [], fnLts := [], outlives := [], recv := .refSelf, recvRegion := .elided,
    otherInputs := [], outRegions := [⟨.elided, true, "ArcBorrow<'_,T>"⟩], outShape := "ArcBorrow<'_,T>", callbacks := [] }
example : regionBounded sigBase = true := by decide
/-- `pub fn borrow_arc<'a>(&self) -> ArcBorrow<'a, T>`: a fresh method-level lifetime -/
example : regionBounded { sigBase with fnLts := ["a"], outRegions := [⟨.named "a", true, "ArcBorrow<'a,T>"⟩] } = false := by decide
/-- `pub fn borrow_arc<'s>(&'s self) -> ArcBorrow<'s, T>`: the same lifetime named — fine -/
example : regionBounded { sigBase with fnLts := ["s"], recvRegion := .named "s", outRegions := [⟨.named "s", true, "ArcBorrow<'s,T>"⟩] } = true := by decide
/-- `fn get<'s, 'o>(&'s self) -> &'o T where 's: 'o`: shorter than the receiver — fine -/
example : regionBounded { sigBase with fnLts := ["s", "o"], recvRegion := .named "s", outlives := [("s", "o")], outRegions := [⟨.named "o", true, "&'o T"⟩] } = true := by decide
/-- `ArcBorrow::get(&self) -> &'static T` -/
example : regionBounded { sigBase with selfLts := ["a"], implLts := ["a"], outRegions := [⟨.static, true, "&'static T"⟩] } = false := by decide
/-- `ArcBorrow::get(&self) -> &'a T` with `'a` the struct's lifetime -/
example : regionBounded { sigBase with selfLts := ["a"], implLts := ["a"], outRegions := [⟨.named "a", true, "&'a T"⟩] } = true := by decide
/-- a `&'static str` that does not mention the payload is nobody's borrow -/
example : regionBounded { sigBase with outRegions := [⟨.static, false, "&'static str"⟩] } = true := by decide
/-- `fn get<'b>(&self, tag: &'b ()) -> &'b T`: tied to an unrelated argument -/
example : regionBounded { sigBase with fnLts := ["b"], otherInputs := [⟨.named "b", false, "&'b ()"⟩], outRegions := [⟨.named "b", true, "&'b T"⟩] } = false := by decide
/-- an unrelated helper without a handle receiver, `fn first<'q>(xs: &'q [u8]) -> &'q u8`, is not an alarm -/
example : regionBounded { sigBase with recv := .none, recvRegion := .unknown, fnLts := ["q"], otherInputs := [⟨.named "q", false, "&'q [u8]"⟩], outRegions := [⟨.named "q", false, "&'q u8"⟩] } = true := by decide
/-- `F: FnOnce(&Arc<T>) -> U` is higher-ranked, `F: FnOnce(&'b Arc<T>) -> U` is not, `for<'r> FnOnce(&'r ..)` is -/
example : higherRanked ⟨"F", "FnOnce", [], [⟨.elided, true, "&Arc<T>"⟩]⟩ = true := by decide
example : higherRanked ⟨"F", "FnOnce", [], [⟨.named "b", true, "&'b Arc<T>"⟩]⟩ = false := by decide
example : higherRanked ⟨"F", "FnOnce", ["r"], [⟨.named "r", true, "&'r Arc<T>"⟩]⟩ = true := by decide

end C13
