"""C10 — a ThinArc is an exact one-word stand-in for the fat Arc.

Deciding method: Lean theorems in Props/C10.lean over the sequential handle machine M1/M3 (invariant
`Inv` preserved by every op, by induction over histories of any length), tied to the code by the
history correspondence (Tie B): the same op lines run on the Lean driver and on the real library.
"""
from vlib import histcheck

MODULE = "TriompheModel.Props.C10"
EXTRA = ["TriompheModel.Proofs.HistLen", "TriompheModel.Props.Monitor", "TriompheModel.Props.C03Sched", "TriompheModel.Props.ApiShape"]
TAGS = ['C10']
WEIGHTS = {'create': 16, 'iter': 8, 'intoThin': 12, 'conv': 18, 'cb': 20, 'clone': 10}


def run(ctx):
    histcheck.run(ctx, MODULE, WEIGHTS, TAGS, lean_extra=EXTRA,
                  release_quick_filter=lambda h: any(op.split()[0] in ('iter', 'intoThin', 'cb') for op in h))
    zst_length_pass(ctx)
    # conversions and borrows under a concurrent observer of the count
    from vlib import miri
    miri.observer_pass(ctx, "C10", programs=("convert_vs_count_observer", "thin_with_arc_mut_get_mut"))
    # the same claims over the shape matrix (over-aligned, byte-sized and zero-sized headers / elements), in the dev
    # profile and with release semantics: stored length = slice length, same header and elements at the same addresses
    # as the fat Arc, thin->fat->thin, and `into_thin` refusing (and releasing) an Arc with a disagreeing recorded length
    from vlib import layout_corr
    ok, stats, failures = layout_corr.thin_pass(ctx)
    ctx.oblige("corr:thin-over-shape-matrix", ok, "%d failing" % len(failures))
    ctx.coverage["thin_shape_matrix"] = stats
    ctx.coverage["evaluations"] = ctx.coverage.get("evaluations", 0) + stats["cases"]
    if not ok:
        body = "ThinArc over the shape matrix: implementation vs layout model / property:\n\n" + "\n\n".join(f["text"] for f in failures[:4])
        if any(f.get("found_input") for f in failures):
            ctx.violation("shape", body, True)
        else:
            ctx.defer_nfi(body)


def zst_length_pass(ctx):
    """slices of ZERO-SIZED elements at lengths up to usize::MAX (byte size 0): every view reports the recorded length
    (the model's `viewLen`, generic in the length: Props/C10.lean), in the dev and the release profile"""
    from vlib import common
    lens = [0, 1, 3, 2 ** 31, 2 ** 32 + 1, 2 ** 62, 2 ** 63 - 2, 2 ** 63 - 1, 2 ** 63, 2 ** 63 + 1, 2 ** 64 - 2, 2 ** 64 - 1]
    cases = [("tz", c, n) for c in ("unit", "z16", "zd") for n in lens]
    text = "".join("%s %s %d\n" % c for c in cases)
    bad, ran = [], 0
    for rel in (False, True):
        exe, out = common.cargo_build_bin(ctx, "thinzst", release=rel)
        if exe is None:
            ctx.oblige("corr:thin-zst-lengths-build", False, out[-1500:])
            ctx.defer_nfi("the zero-sized-element ThinArc harness does not build against this tree:\n" + out[-2500:])
            return
        rc, so, se = common.sh2([exe], stdin=text, timeout=120)
        lines = so.splitlines()
        for i, c in enumerate(cases):
            l = lines[i] if i < len(lines) else "st=crash(rc=%s)" % rc
            ran += 1
            kv = dict(x.split("=", 1) for x in l.split() if "=" in x)
            want = str(c[2])
            views = ["fat0_len", "thin_len", "hdr_len", "with_arc_len", "fat_len", "back_len"]
            # the constructor may refuse up front with a panic (C06), but a handle that exists must agree with itself
            if kv.get("st") == "ok":
                wrong = [v for v in views if kv.get(v) != want]
                if wrong or kv.get("hdr") != "77" or kv.get("cnt") != "2":
                    bad.append((c, "release" if rel else "dev", l, "views that do not report the recorded length %s: %s" % (want, ", ".join(wrong) or "-")))
            elif not kv.get("st", "").startswith("panic"):
                bad.append((c, "release" if rel else "dev", l, "the harness died / printed garbage"))
    ctx.coverage["thin_zst_lengths"] = {"cases": ran, "lengths": [str(x) for x in lens], "element_classes": ["()", "zero-sized align 16", "zero-sized with Drop"]}
    ctx.coverage["evaluations"] = ctx.coverage.get("evaluations", 0) + ran
    ctx.oblige("corr:thin-zst-lengths", not bad, "%d failing" % len(bad))
    if bad:
        body = ["ThinArc over zero-sized elements: a view of the allocation does not report the recorded length", ""]
        for c, prof, l, why in bad[:6]:
            body.append("case: %s %s %d   [%s profile]\n  observed: %s\n  %s\n  model: every view has length %d (viewLen = recorded length)" % (c[0], c[1], c[2], prof, l, why, c[2]))
        body.append("\nreplay: printf 'tz <class> <len>\\n' | <harness bin thinzst>")
        ctx.violation("shape", "\n".join(body), True)


def replay(ctx, path):
    histcheck.replay(ctx, path, TAGS)
