/-!
# M8 — serde: `Serialize` / `Deserialize` for `Arc<T>` and `UniqueArc<T>` (property C17)

Executable model, core Lean only.  The source (arc.rs, unique_arc.rs):

```rust
impl<T: Serialize> Serialize for Arc<T> {
    fn serialize<S: Serializer>(&self, serializer: S) -> Result<S::Ok, S::Error> {
        (**self).serialize(serializer)
    }
}
impl<'de, T: Deserialize<'de>> Deserialize<'de> for Arc<T> {
    fn deserialize<D: Deserializer<'de>>(deserializer: D) -> Result<Arc<T>, D::Error> {
        T::deserialize(deserializer).map(Arc::new)
    }
}
```
and the same two impls for `UniqueArc<T>` with `UniqueArc::new`.

Part 1 is generic: a serializer is *any* state machine, a payload's `serialize` / `deserialize` are
*any* functions; `Arc.serialize`, `Arc.deserialize` are written as the source delegates.  The
theorems of `Props/C17.lean` are about Part 1 only (∀ payload, ∀ serializer state, ∀ heap).

Part 2 is one concrete instance used by the driver `drv_serde` for the correspondence: a recording
serializer / replaying deserializer with failure injection at the k-th callback, and a payload
universe `Val` (serde's data model restricted to what the harness's payload family uses), with the
call sequences serde's own impls for the std types make.
-/
namespace Serde

/-! ## Part 1 — the generic model -/

/-- A serializer as an abstract machine: some state `σ` from which the log of callbacks made so far
can be read.  (What a callback does to the state is up to the payload's `serialize`, which is an
arbitrary function `α → σ → Except ε σ`.) -/
structure Ser (σ : Type) (κ : Type) where
  calls : σ → List κ

/-- A payload type `T` with its own serde impls: arbitrary functions. -/
structure Payload (α σ ε δ : Type) where
  serialize : α → σ → Except ε σ          -- `T::serialize(&self, serializer)`
  deserialize : δ → Except ε α             -- `T::deserialize(deserializer)`

/-- one heap block `ArcInner { count, data }` -/
structure Block (α : Type) where
  count : Nat
  value : α
deriving DecidableEq, Repr

/-- the heap: blocks in allocation order; a block's index is its identity -/
structure Heap (α : Type) where
  blocks : List (Block α)
deriving DecidableEq, Repr

/-- An `Arc<T>` / `UniqueArc<T>` handle: the block it points to and the value `Deref` yields
(kept in the handle so that `**self` is total in the model). -/
structure Handle (α : Type) where
  idx : Nat
  val : α
deriving DecidableEq, Repr

/-- `Arc::new(v)` / `UniqueArc::new(v)`: allocate a new block with count 1 holding `v`. -/
def Handle.new {α : Type} (h : Heap α) (v : α) : Heap α × Handle α :=
  (⟨h.blocks ++ [⟨1, v⟩]⟩, ⟨h.blocks.length, v⟩)

/-- `impl Serialize for Arc<T>`: `(**self).serialize(serializer)` -/
def Arc.serialize {α σ ε δ : Type} (P : Payload α σ ε δ) (a : Handle α) (s : σ) : Except ε σ :=
  P.serialize a.val s

/-- `impl Serialize for UniqueArc<T>`: `(**self).serialize(serializer)` -/
def UniqueArc.serialize {α σ ε δ : Type} (P : Payload α σ ε δ) (u : Handle α) (s : σ) : Except ε σ :=
  P.serialize u.val s

/-- `impl Deserialize for Arc<T>`: `T::deserialize(deserializer).map(Arc::new)` — the inner
deserialiser runs first; only its `Ok` value reaches `Arc::new`.  The heap is threaded through so
that "no allocation on error" is a statement about the result. -/
def Arc.deserialize {α σ ε δ : Type} (P : Payload α σ ε δ) (h : Heap α) (d : δ) :
    Heap α × Except ε (Handle α) :=
  match P.deserialize d with
  | .ok v => let (h', a) := Handle.new h v; (h', .ok a)
  | .error e => (h, .error e)

/-- `impl Deserialize for UniqueArc<T>`: `T::deserialize(deserializer).map(UniqueArc::new)` -/
def UniqueArc.deserialize {α σ ε δ : Type} (P : Payload α σ ε δ) (h : Heap α) (d : δ) :
    Heap α × Except ε (Handle α) :=
  match P.deserialize d with
  | .ok v => let (h', u) := Handle.new h v; (h', .ok u)
  | .error e => (h, .error e)

/-- releasing one owner of block `i` (a count of 0 = the block has been freed) -/
def Heap.release {α : Type} (h : Heap α) (i : Nat) : Heap α :=
  match h.blocks[i]? with
  | some b => ⟨h.blocks.set i { b with count := b.count - 1 }⟩
  | none => h

/-- `Deserialize::deserialize_in_place(deserializer, place)` for `Arc<T>` / `UniqueArc<T>`: neither impl
overrides it, so it is serde's provided method `*place = Deserialize::deserialize(deserializer)?` —
a fresh handle is built first; only on success is it stored, which releases the handle that was in
`place`.  Returns the heap, the result and the handle now in `place`. -/
def Arc.deserializeInPlace {α σ ε δ : Type} (P : Payload α σ ε δ) (h : Heap α) (place : Handle α) (d : δ) :
    Heap α × Except ε Unit × Handle α :=
  match Arc.deserialize P h d with
  | (h', .ok a) => (h'.release place.idx, .ok (), a)
  | (h', .error e) => (h', .error e, place)

def UniqueArc.deserializeInPlace {α σ ε δ : Type} (P : Payload α σ ε δ) (h : Heap α) (place : Handle α) (d : δ) :
    Heap α × Except ε Unit × Handle α :=
  match UniqueArc.deserialize P h d with
  | (h', .ok a) => (h'.release place.idx, .ok (), a)
  | (h', .error e) => (h', .error e, place)

/-! ## Part 2 — a recording serializer / replaying deserializer and a payload universe -/

/-- One callback on the recording serializer or on the replaying deserializer. -/
inductive Call
  -- Serializer
  | bool (b : Bool) | u8 (n : Nat) | u16 (n : Nat) | u32 (n : Nat) | u64 (n : Nat) | i32 (i : Int)
  | str (s : String) | none | some | unit | unitStruct (name : String)
  | seq (len : Nat) | tuple (len : Nat) | struct (name : String) (len : Nat)
  | elem | field (name : String) | end_
  -- Deserializer
  | deBool | deU8 | deU16 | deU32 | deU64 | deI32 | deString | deOption | deUnit | deUnitStruct (name : String)
  | deSeq | deTuple (len : Nat) | deStruct (name : String) (len : Nat) | nextElem
  -- the injected failure (always last in a log)
  | fail
deriving DecidableEq, Repr

def Call.toString : Call → String
  | .bool b => s!"bool:{b}" | .u8 n => s!"u8:{n}" | .u16 n => s!"u16:{n}" | .u32 n => s!"u32:{n}"
  | .u64 n => s!"u64:{n}" | .i32 i => s!"i32:{i}" | .str s => s!"str:={s}" | .none => "none"
  | .some => "some" | .seq n => s!"seq:{n}" | .tuple n => s!"tuple:{n}"
  | .struct name n => s!"struct:{name}:{n}" | .elem => "elem" | .field name => s!"field:{name}"
  | .end_ => "end" | .unit => "unit" | .deUnit => "de_unit"
  | .unitStruct name => s!"unit_struct:{name}" | .deUnitStruct name => s!"de_unit_struct:{name}"
  | .deBool => "de_bool" | .deU8 => "de_u8" | .deU16 => "de_u16" | .deU32 => "de_u32"
  | .deU64 => "de_u64" | .deI32 => "de_i32" | .deString => "de_string" | .deOption => "de_option"
  | .deSeq => "de_seq" | .deTuple n => s!"de_tuple:{n}" | .deStruct name n => s!"de_struct:{name}:{n}"
  | .nextElem => "next_elem"
  | .fail => "!"

/-- State of the recorder: the log, the number of callbacks so far, and the index (1-based) of the
callback that is made to fail (`0` = never). -/
structure Rec where
  log : List Call
  n : Nat
  failAt : Nat
deriving DecidableEq, Repr

def Rec.init (failAt : Nat) : Rec := ⟨[], 0, failAt⟩

/-- The injected error: where it happened and the log up to and including the failing callback. -/
structure Err where
  at_ : Nat
  log : List Call
deriving DecidableEq, Repr

/-- one callback: logged, counted, and failing if it is the `failAt`-th -/
def Rec.call (s : Rec) (c : Call) : Except Err Rec :=
  let n := s.n + 1
  let log := s.log ++ [c]
  if n == s.failAt then .error ⟨n, log ++ [.fail]⟩ else .ok ⟨log, n, s.failAt⟩

def recSer : Ser Rec Call := ⟨Rec.log⟩

mutual
/-- serde's data model, restricted to the payload family of the harness -/
inductive Val
  | bool (b : Bool) | u8 (n : Nat) | u16 (n : Nat) | u32 (n : Nat) | u64 (n : Nat) | i32 (i : Int)
  | str (s : String)
  | unit                                       -- `()`: a zero-sized payload
  | unitStruct (name : String)                 -- a zero-sized unit struct with hand-written impls
  | none | some (v : Val)
  | tuple (xs : Vals)                          -- `(A, B)`
  | seq (xs : Vals)                            -- `Vec<T>`
  | struct (name : String) (fs : Fields)       -- a struct with hand-written impls
inductive Vals | nil | cons (v : Val) (vs : Vals)
inductive Fields | nil | cons (name : String) (v : Val) (fs : Fields)
end

def Vals.length : Vals → Nat
  | .nil => 0
  | .cons _ vs => vs.length + 1
def Fields.length : Fields → Nat
  | .nil => 0
  | .cons _ _ fs => fs.length + 1

mutual
/-- `T::serialize` for the payload universe: the callbacks serde's impls for the std types (and the
harness's hand-written struct impls) make, in order; stops at the first error. -/
def Val.ser : Val → Rec → Except Err Rec
  | .bool b, s => s.call (.bool b)
  | .u8 n, s => s.call (.u8 n)
  | .u16 n, s => s.call (.u16 n)
  | .u32 n, s => s.call (.u32 n)
  | .u64 n, s => s.call (.u64 n)
  | .i32 i, s => s.call (.i32 i)
  | .str t, s => s.call (.str t)
  | .unit, s => s.call .unit
  | .unitStruct name, s => s.call (.unitStruct name)
  | .none, s => s.call .none
  | .some v, s => do let s ← s.call .some; v.ser s
  | .tuple xs, s => do let s ← s.call (.tuple xs.length); let s ← xs.serElems s; s.call .end_
  | .seq xs, s => do let s ← s.call (.seq xs.length); let s ← xs.serElems s; s.call .end_
  | .struct name fs, s => do
      let s ← s.call (.struct name fs.length); let s ← fs.serFields s; s.call .end_
def Vals.serElems : Vals → Rec → Except Err Rec
  | .nil, s => .ok s
  | .cons v vs, s => do let s ← s.call .elem; let s ← v.ser s; vs.serElems s
def Fields.serFields : Fields → Rec → Except Err Rec
  | .nil, s => .ok s
  | .cons name v fs, s => do let s ← s.call (.field name); let s ← v.ser s; fs.serFields s
end

mutual
/-- `T::deserialize` from a replaying deserializer positioned on a value of the right shape: the
`Deserializer` / `SeqAccess` callbacks made, in order (`Vec`'s visitor asks for one element more
than there are; tuple and struct visitors ask for exactly their arity). -/
def Val.de : Val → Rec → Except Err Rec
  | .bool _, s => s.call .deBool
  | .u8 _, s => s.call .deU8
  | .u16 _, s => s.call .deU16
  | .u32 _, s => s.call .deU32
  | .u64 _, s => s.call .deU64
  | .i32 _, s => s.call .deI32
  | .str _, s => s.call .deString
  | .unit, s => s.call .deUnit
  | .unitStruct name, s => s.call (.deUnitStruct name)
  | .none, s => s.call .deOption
  | .some v, s => do let s ← s.call .deOption; v.de s
  | .tuple xs, s => do let s ← s.call (.deTuple xs.length); xs.deElems s
  | .seq xs, s => do let s ← s.call .deSeq; let s ← xs.deElems s; s.call .nextElem
  | .struct name fs, s => do let s ← s.call (.deStruct name fs.length); fs.deFields s
def Vals.deElems : Vals → Rec → Except Err Rec
  | .nil, s => .ok s
  | .cons v vs, s => do let s ← s.call .nextElem; let s ← v.de s; vs.deElems s
def Fields.deFields : Fields → Rec → Except Err Rec
  | .nil, s => .ok s
  | .cons _ v fs, s => do let s ← s.call .nextElem; let s ← v.de s; fs.deFields s
end

/-- the replaying deserializer: the value it is positioned on and the recorder -/
structure DeInput where
  v : Val
  r : Rec

/-- The concrete payload: values of the universe, the recorder as serializer, the replaying
deserializer as input.  The deserialised value is the value replayed, together with the final
recorder state (so that the log of a successful run is observable). -/
def valPayload : Payload (Val × Rec) Rec Err DeInput where
  serialize := fun a s => a.1.ser s
  deserialize := fun d => (d.v.de d.r).map (fun r => (d.v, r))

end Serde
