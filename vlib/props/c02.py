"""C02 — concurrent clone/drop: one destroyer, ordered after every thread's last access.

Deciding method: Lean theorems `C02_destroy_after_all`, `C02_destroy_unique`,
`C02_nothing_after_destroy` over the axiomatic weak-memory model (WM/*.lean), instantiated at the
atomics facts the translator reads from /repo/src on this run (Tie A).  Support / failing-input
search: Miri on litmus programs against the unmodified crate.
"""
import json
import os

from vlib import common
from vlib import miri

MODULE = "TriompheModel.Props.C02"

# unwrap_or_clone_vs_make_mut: the release inside the copy-on-write path may be the LAST one (the other owners left meanwhile)
QUICK = ["clone_read_drop_2t", "thin_offset_union_2t", "try_unwrap_vs_drop", "nodrop_payload_2t", "arcswap_cell_last_owner", "unwrap_or_clone_vs_make_mut"]
ASSUME = [
    "M4 Consistent: the RC11/C++20 fragment for one location whose writes are all RMWs (coherence, release sequences in index form)",
    "M4 Protocol / ViaBorn: DERIVED (WM/Ownership.lean: protocol_of_run, viaBorn_of_run) for every run of an operational, ownership-guarded semantics of handle programs (clone / access / load / drop / hand-over between threads) and every transitive hb containing program order and the hand-over edges; that this semantics is what safe Rust allows a client to do with handles is the remaining assumption (not derived from rustc)",
    "hardware / rustc code generation for atomics is outside the model",
]


def facts_summary(facts):
    a = facts.get("atomics", {})
    return {k: a.get(k) for k in ("cloneOrd", "decOrd", "decGuard", "fence", "dropSkeleton", "unknownWrites")} | {
        "sites": len(a.get("sites", [])), "funnels": a.get("funnels"),
        "consuming_gates": [g for g in a.get("gates", []) if g.get("name") in ("Arc::try_unique", "Arc::try_unwrap", "Arc::unwrap_or_clone", "UniqueArc::try_from")]}


def run(ctx):
    ctx.assumptions = ASSUME
    facts = common.regen_facts(ctx)
    ctx.coverage["generated_facts"] = facts_summary(facts)
    ok, out = common.lean_obligations(ctx, MODULE, ["TriompheModel.Props.Gates", "TriompheModel.WM.Consume", "TriompheModel.WM.RelSeq",
                                                    "TriompheModel.WM.FinExec", "TriompheModel.WM.FinExamples", "TriompheModel.WM.Search",
                                                    "TriompheModel.WM.Ownership", "TriompheModel.WM.OwnershipExamples", "TriompheModel.Props.C02Programs"])
    # model-side search at the orderings of this tree: the template family must contain no racy execution
    nw, wtxt = common.wm_search(ctx, facts)
    ctx.oblige("model-search:no-racy-template-execution", nw == 0, wtxt[:300])

    # supporting validation + failing-input search: Miri litmus programs on the working tree
    progs = QUICK if not ctx.thorough() else (miri.programs_for("C02") + ["try_unwrap_vs_drop", "racing_try_unwrap_2t", "unwrap_or_clone_vs_drop", "try_unique_vs_drop", "unwrap_or_clone_vs_make_mut", "make_mut_vs_readers"])
    seeds = miri.seeds(ctx, 2 if not ctx.thorough() else 24)
    res = miri.run_suite(ctx, progs, seeds)
    ctx.coverage.update(miri.coverage(res))
    ctx.coverage["rule"] = ("Miri (data-race + use-after-free detector, weak-memory emulation) on litmus program x scheduler seed; "
                            "non-trivial = >=2 threads touched one allocation and it was destroyed; distinct = distinct (program, seed)")
    bad = miri.failing(res)
    ctx.oblige("miri:litmus-race-free", not bad, "%d failing runs" % len(bad))

    # the single-thread schedules are schedules too: "destroyed exactly once", "nothing touched after the release of the
    # memory" along sequential histories with panicking callbacks (the tour of the history harness; monitors tagged C02).
    # Used as a SEARCH here (C02's theorems are about the weak-memory model, not about the sequential one): only a
    # monitor failure counts, a model/implementation difference without one is the history checks' business.
    if not any(v["found_input"] for v in ctx.violations):
        from vlib import histcheck
        histcheck.run(ctx, MODULE, dict(clone=20, drop=20, cb=16, conv=14, cmp=8), ["C02"], lean=False, cov_key="history_pass", n_quick=60,
                      zst=False, search_only=True)
        if any(v["found_input"] for v in ctx.violations):
            return

    if ctx.failed_obligations():
        body = ["Lean obligations that no longer check (Props/C02.lean at the regenerated facts):"]
        body += ["  " + n for n in ctx.failed_obligations()]
        body.append("generated facts: " + json.dumps(ctx.coverage["generated_facts"]))
        body.append("")
        nw, wtxt = common.wm_search(ctx, facts)
        body.append(wtxt)
        body.append("")
        if not bad and not ctx.thorough():
            # widen the search before giving up
            more = miri.run_suite(ctx, (miri.programs_for("C02") + ["try_unwrap_vs_drop", "racing_try_unwrap_2t", "unwrap_or_clone_vs_drop", "try_unique_vs_drop"]), miri.seeds(ctx, 16))
            bad = miri.failing(more)
            ctx.coverage["search_runs"] = len(more)
        if bad:
            r = bad[0]
            body.append("failing input: Miri litmus program `%s` with -Zmiri-seed=%d:" % (r["program"], r["seed"]))
            body.append("  replay: " + r["cmd"])
            body.append(r["report"])
            body.append("")
            body.append("model-level witness (Lean, WM/Weak.lean, theorem C02.C02_release_needed): with a relaxed decrement the "
                        "2-thread execution [inc h1<-h0; B: read via h1; dec h1 | A: read via h0; dec h0 (reads 1); acquire load; destroy] "
                        "is Consistent and follows Protocol, yet B's read and the destruction are unordered by happens-before.")
            ctx.violation("miri", "\n".join(body), True)
        else:
            nat = miri.run_native(ctx, miri.programs_for("C02") + miri.programs_for("C09"))
            nbad = miri.failing(nat)
            if nbad:
                r = nbad[0]
                body += ["failing input: litmus program `%s` run natively (%d rounds, real threads):" % (r["program"], r.get("rounds", 0)), "  replay: " + r["cmd"], r["report"]]
                ctx.violation("native", "\n".join(body), True)
                return
            body.append("search: %d Miri runs over %s and %d native stress runs found no race / use-after-free" % (
                ctx.coverage.get("search_runs", len(res)), ",".join(sorted({r["program"] for r in res})), len(nat)))
            body.append("Lean output:\n" + out[-3000:])
            ctx.defer_nfi("\n".join(body))


def replay(ctx, path):
    if any(l.startswith("OP ") for l in open(path)):
        from vlib import histcheck
        return histcheck.replay(ctx, path, ["C02"])
    miri.replay(ctx, path)
