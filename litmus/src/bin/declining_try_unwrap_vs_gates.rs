//! C03 / C09: thread A keeps calling `Arc::try_unwrap` on its handle while the main thread holds a
//! second owner the whole time — every call must DECLINE and give the same handle back, and at no
//! moment may the main thread's uniqueness gates (`get_mut`, `is_unique`, `try_unique`) succeed: two
//! owners exist throughout.  (A `try_unwrap` that gives up its reference before it knows whether it
//! may — decrement first, restore on failure — opens exactly this window.)
use litmus::*;
use std::sync::atomic::{AtomicBool, Ordering::Relaxed};
use triomphe::Arc;

fn main() {
    let mut t = Tally::new();
    for r in 0..rounds(4) {
        let tag = 900 + r as u64;
        let a = Arc::new(Payload::new(tag));
        t.shared(2);
        let mut mine = a.clone();
        let stop = AtomicBool::new(false);
        let granted = AtomicBool::new(false);
        std::thread::scope(|s| {
            let stop_ref = &stop;
            s.spawn(move || {
                let before = a.heap_ptr();
                let mut cur = a;
                // keeps its handle until the main thread has finished polling (stop)
                while !stop_ref.load(Relaxed) {
                    match Arc::try_unwrap(cur) {
                        Ok(_) => {
                            check(false, "try_unwrap moved the value out while another owner exists");
                            return;
                        }
                        Err(back) => {
                            check(back.heap_ptr() == before, "declining try_unwrap returned a different handle");
                            back.read_expect(tag);
                            cur = back;
                        }
                    }
                }
                drop(cur);
            });
            for _ in 0..300 {
                if Arc::get_mut(&mut mine).is_some() || mine.is_unique() {
                    granted.store(true, Relaxed);
                    break;
                }
                spin();
            }
            stop.store(true, Relaxed);
        });
        check(!granted.load(Relaxed), "a uniqueness gate succeeded while another thread still owned (and was using) a handle");
        mine.read_expect(tag);
        drop(mine);
    }
    t.finish();
}
