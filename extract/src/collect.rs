//! Pass 1: parse every `src/*.rs`, collect every non-test function (with the impl it lives in),
//! struct field types, constants and `use` items.  Nothing is expanded.

use std::collections::{BTreeMap, BTreeSet};

use proc_macro2::{TokenStream, TokenTree};
use quote::ToTokens;
use syn::visit::Visit;

/// A very small type abstraction: the outermost crate-local type name and the number of
/// reference-like layers (`&`, `&mut`, `ManuallyDrop<..>`) around it.  `None` = unknown / foreign.
pub type Ty = Option<(String, u8)>;

#[derive(Clone, PartialEq, Eq, Debug)]
pub enum CfgKind {
    /// `cfg(feature = "std")`
    Std,
    /// `cfg(not(feature = "std"))`
    NoStd,
    /// any other cfg
    Other(String),
}

pub struct FnInfo {
    pub qname: String,
    pub name: String,
    pub self_ty: Option<String>,
    pub trait_name: Option<String>,
    pub file: String,
    pub line: usize,
    pub has_receiver: bool,
    /// parameters including the receiver (as "self")
    pub params: Vec<(Option<String>, Ty)>,
    /// for each parameter: argument types of its `Fn*(..)` bound if it is a callback
    pub closure_sigs: Vec<Option<Vec<Ty>>>,
    pub ret: Ty,
    pub block: syn::Block,
    pub cfgs: Vec<CfgKind>,
    pub hash: String,
    /// index of the lexically enclosing function (nested items), if any
    pub parent: Option<usize>,
    /// declared `pub` (unrestricted)
    pub is_pub: bool,
    /// a default method in a `trait` definition
    pub in_trait_def: bool,
}

impl FnInfo {
    /// An *entry point*: callable from outside the crate as far as this translator can tell (`pub`
    /// functions, methods of trait impls, default methods of traits).  Everything else (private,
    /// `pub(crate)`, `pub(super)`, `pub(in ..)`, items nested in a function) is a *helper*: every caller
    /// is in the crate, so the call graph sees all of them.
    pub fn is_entry(&self) -> bool {
        self.is_pub || self.trait_name.is_some() || self.in_trait_def
    }
}

pub struct ConstInfo {
    pub name: String,
    pub file: String,
    pub line: usize,
    pub expr: syn::Expr,
    pub snippet: String,
}

pub struct UseInfo {
    pub file: String,
    pub line: usize,
    /// flattened full paths, e.g. ["std","process","abort"], plus the name it is bound to
    pub paths: Vec<(Vec<String>, String)>,
    pub cfgs: Vec<CfgKind>,
    pub snippet: String,
}

pub struct SourceFile {
    pub name: String,
    pub lines: Vec<String>,
}

#[derive(Default)]
pub struct Crate {
    pub files: Vec<SourceFile>,
    pub fns: Vec<FnInfo>,
    pub by_qname: BTreeMap<String, Vec<usize>>,
    pub free_by_name: BTreeMap<String, Vec<usize>>,
    pub methods_by_name: BTreeMap<String, Vec<usize>>,
    pub types: BTreeSet<String>,
    /// (struct, field name or tuple index) -> type
    pub fields: BTreeMap<(String, String), Ty>,
    pub consts: Vec<ConstInfo>,
    pub uses: Vec<UseInfo>,
    /// top-level macro items (`macro_rules!` definitions, item-position invocations): (file, name, tokens)
    pub macro_items: Vec<(String, String, TokenStream)>,
    /// names of functions that hand out (a reference to) the count: the declared return type mentions
    /// an `Atomic*` type, or the body is a single expression that mentions a `.count` field
    pub count_accessors: BTreeSet<String>,
}

impl Crate {
    pub fn snippet(&self, file: &str, line: usize) -> String {
        for f in &self.files {
            if f.name == file {
                if line >= 1 && line <= f.lines.len() {
                    return clean_snippet(&f.lines[line - 1]);
                }
            }
        }
        String::new()
    }
    pub fn unique_fn(&self, qname: &str) -> Option<usize> {
        match self.by_qname.get(qname) {
            Some(v) if v.len() == 1 => Some(v[0]),
            _ => None,
        }
    }
}

pub fn clean_snippet(s: &str) -> String {
    let t: String = s.trim().chars().map(|c| if c.is_control() { ' ' } else { c }).collect();
    if t.chars().count() > 110 {
        let mut r: String = t.chars().take(107).collect();
        r.push_str("...");
        r
    } else {
        t
    }
}

// ------------------------------------------------------------------------------------------------
// attributes

fn attr_tokens_flat(ts: TokenStream, out: &mut Vec<String>) {
    for t in ts {
        match t {
            TokenTree::Group(g) => {
                out.push("(".into());
                attr_tokens_flat(g.stream(), out);
                out.push(")".into());
            }
            other => out.push(other.to_string()),
        }
    }
}

/// cfg attributes of an item, classified
pub fn cfgs_of(attrs: &[syn::Attribute]) -> Vec<CfgKind> {
    let mut v = Vec::new();
    for a in attrs {
        if a.path().is_ident("cfg") {
            let mut toks = Vec::new();
            if let syn::Meta::List(l) = &a.meta {
                attr_tokens_flat(l.tokens.clone(), &mut toks);
            }
            let s = toks.join(" ");
            let k = match s.as_str() {
                "feature = \"std\"" => CfgKind::Std,
                "not ( feature = \"std\" )" => CfgKind::NoStd,
                _ => CfgKind::Other(s),
            };
            v.push(k);
        }
    }
    v
}

/// `#[cfg(test)]`, `#[cfg(all(test, ..))]`, `#[test]`, `#[bench]`
pub fn is_test_item(attrs: &[syn::Attribute]) -> bool {
    for a in attrs {
        if a.path().is_ident("test") || a.path().is_ident("bench") {
            return true;
        }
        if a.path().is_ident("cfg") {
            if let syn::Meta::List(l) = &a.meta {
                let mut toks = Vec::new();
                attr_tokens_flat(l.tokens.clone(), &mut toks);
                let has_test = toks.iter().any(|t| t == "test");
                let has_not = toks.iter().any(|t| t == "not");
                if has_test && !has_not {
                    return true;
                }
            }
        }
    }
    false
}

// ------------------------------------------------------------------------------------------------
// types

pub fn type_ident(ty: &syn::Type) -> Option<String> {
    match ty {
        syn::Type::Path(p) => p.path.segments.last().map(|s| s.ident.to_string()),
        syn::Type::Reference(r) => type_ident(&r.elem),
        syn::Type::Paren(p) => type_ident(&p.elem),
        syn::Type::Group(g) => type_ident(&g.elem),
        _ => None,
    }
}

pub fn ty_of(ty: &syn::Type, self_ty: Option<&str>, types: &BTreeSet<String>) -> Ty {
    match ty {
        syn::Type::Reference(r) => ty_of(&r.elem, self_ty, types).map(|(n, d)| (n, d.saturating_add(1))),
        syn::Type::Paren(p) => ty_of(&p.elem, self_ty, types),
        syn::Type::Group(g) => ty_of(&g.elem, self_ty, types),
        syn::Type::Path(p) => {
            let seg = p.path.segments.last()?;
            let id = seg.ident.to_string();
            if id == "Self" {
                return self_ty.map(|s| (s.to_string(), 0));
            }
            if id == "ManuallyDrop" {
                if let syn::PathArguments::AngleBracketed(a) = &seg.arguments {
                    for arg in &a.args {
                        if let syn::GenericArgument::Type(t) = arg {
                            return ty_of(t, self_ty, types).map(|(n, d)| (n, d.saturating_add(1)));
                        }
                    }
                }
                return None;
            }
            if types.contains(&id) {
                Some((id, 0))
            } else {
                None
            }
        }
        _ => None,
    }
}

fn fn_bound_inputs(
    bounds: &syn::punctuated::Punctuated<syn::TypeParamBound, syn::Token![+]>,
    self_ty: Option<&str>,
    types: &BTreeSet<String>,
) -> Option<Vec<Ty>> {
    for b in bounds {
        if let syn::TypeParamBound::Trait(t) = b {
            if let Some(seg) = t.path.segments.last() {
                let id = seg.ident.to_string();
                if id == "Fn" || id == "FnMut" || id == "FnOnce" {
                    if let syn::PathArguments::Parenthesized(p) = &seg.arguments {
                        return Some(p.inputs.iter().map(|t| ty_of(t, self_ty, types)).collect());
                    }
                }
            }
        }
    }
    None
}

// ------------------------------------------------------------------------------------------------
// hashing

pub fn fnv1a(s: &str) -> String {
    let mut h: u64 = 0xcbf29ce484222325;
    for b in s.as_bytes() {
        h ^= *b as u64;
        h = h.wrapping_mul(0x100000001b3);
    }
    format!("{:016x}", h)
}

// ------------------------------------------------------------------------------------------------
// collection

#[derive(Clone, Default)]
struct Ctx {
    self_ty: Option<String>,
    trait_name: Option<String>,
    cfgs: Vec<CfgKind>,
    parent: Option<usize>,
    is_pub: bool,
    in_trait_def: bool,
}

struct NestedItems<'a> {
    items: Vec<&'a syn::Item>,
}

impl<'a> Visit<'a> for NestedItems<'a> {
    fn visit_item(&mut self, i: &'a syn::Item) {
        self.items.push(i); // do not descend: the item is processed on its own
    }
}

pub struct Collector {
    pub krate: Crate,
}

impl Collector {
    pub fn new() -> Self {
        Collector { krate: Crate::default() }
    }

    /// first sweep: names of all crate-local types (needed to classify signatures)
    pub fn collect_types(&mut self, file: &syn::File) {
        struct T<'c> {
            types: &'c mut BTreeSet<String>,
        }
        impl<'a, 'c> Visit<'a> for T<'c> {
            fn visit_item(&mut self, i: &'a syn::Item) {
                match i {
                    syn::Item::Struct(s) if !is_test_item(&s.attrs) => {
                        self.types.insert(s.ident.to_string());
                    }
                    syn::Item::Enum(s) if !is_test_item(&s.attrs) => {
                        self.types.insert(s.ident.to_string());
                    }
                    syn::Item::Union(s) if !is_test_item(&s.attrs) => {
                        self.types.insert(s.ident.to_string());
                    }
                    syn::Item::Mod(m) if is_test_item(&m.attrs) => return,
                    syn::Item::Fn(f) if is_test_item(&f.attrs) => return,
                    _ => {}
                }
                syn::visit::visit_item(self, i);
            }
        }
        T { types: &mut self.krate.types }.visit_file(file);
    }

    pub fn collect_file(&mut self, fname: &str, file: &syn::File) {
        let ctx = Ctx::default();
        for item in &file.items {
            self.item(fname, item, &ctx);
        }
    }

    fn item(&mut self, fname: &str, item: &syn::Item, ctx: &Ctx) {
        match item {
            syn::Item::Mod(m) => {
                if is_test_item(&m.attrs) {
                    return;
                }
                if let Some((_, items)) = &m.content {
                    let mut c = ctx.clone();
                    c.cfgs.extend(cfgs_of(&m.attrs));
                    for i in items {
                        self.item(fname, i, &c);
                    }
                }
            }
            syn::Item::Fn(f) => {
                if is_test_item(&f.attrs) {
                    return;
                }
                let mut c = Ctx {
                    self_ty: None,
                    trait_name: None,
                    cfgs: ctx.cfgs.clone(),
                    parent: ctx.parent,
                    is_pub: matches!(f.vis, syn::Visibility::Public(_)) && ctx.parent.is_none(),
                    in_trait_def: false,
                };
                c.cfgs.extend(cfgs_of(&f.attrs));
                self.add_fn(fname, &f.sig, &f.block, &c);
            }
            syn::Item::Impl(i) => {
                if is_test_item(&i.attrs) {
                    return;
                }
                let self_ty = type_ident(&i.self_ty);
                let trait_name = i.trait_.as_ref().and_then(|(_, p, _)| p.segments.last().map(|s| s.ident.to_string()));
                let mut cfgs = ctx.cfgs.clone();
                cfgs.extend(cfgs_of(&i.attrs));
                for it in &i.items {
                    match it {
                        syn::ImplItem::Fn(f) => {
                            if is_test_item(&f.attrs) {
                                continue;
                            }
                            let mut c = Ctx {
                                self_ty: self_ty.clone(),
                                trait_name: trait_name.clone(),
                                cfgs: cfgs.clone(),
                                parent: ctx.parent,
                                is_pub: matches!(f.vis, syn::Visibility::Public(_)) && ctx.parent.is_none(),
                                in_trait_def: false,
                            };
                            c.cfgs.extend(cfgs_of(&f.attrs));
                            self.add_fn(fname, &f.sig, &f.block, &c);
                        }
                        syn::ImplItem::Const(k) => {
                            self.add_const(fname, &k.ident, &k.expr);
                        }
                        _ => {}
                    }
                }
            }
            syn::Item::Trait(t) => {
                if is_test_item(&t.attrs) {
                    return;
                }
                let mut cfgs = ctx.cfgs.clone();
                cfgs.extend(cfgs_of(&t.attrs));
                for it in &t.items {
                    if let syn::TraitItem::Fn(f) = it {
                        if let Some(b) = &f.default {
                            let c = Ctx {
                                self_ty: Some(t.ident.to_string()),
                                trait_name: None,
                                cfgs: cfgs.clone(),
                                parent: ctx.parent,
                                is_pub: false,
                                in_trait_def: true,
                            };
                            self.add_fn(fname, &f.sig, b, &c);
                        }
                    }
                }
            }
            syn::Item::Struct(s) => {
                if is_test_item(&s.attrs) {
                    return;
                }
                let sname = s.ident.to_string();
                for (idx, f) in s.fields.iter().enumerate() {
                    let key = match &f.ident {
                        Some(i) => i.to_string(),
                        None => idx.to_string(),
                    };
                    let t = ty_of(&f.ty, Some(&sname), &self.krate.types);
                    self.krate.fields.insert((sname.clone(), key), t);
                }
            }
            syn::Item::Const(k) => {
                if is_test_item(&k.attrs) {
                    return;
                }
                self.add_const(fname, &k.ident, &k.expr);
            }
            syn::Item::Static(k) => {
                if is_test_item(&k.attrs) {
                    return;
                }
                self.add_const(fname, &k.ident, &k.expr);
            }
            syn::Item::Macro(m) => {
                if is_test_item(&m.attrs) {
                    return;
                }
                let name = match &m.ident {
                    Some(i) => i.to_string(),
                    None => m.mac.path.segments.last().map(|s| s.ident.to_string()).unwrap_or_default(),
                };
                self.krate.macro_items.push((fname.to_string(), name, m.mac.tokens.clone()));
            }
            syn::Item::Use(u) => {
                if is_test_item(&u.attrs) {
                    return;
                }
                let mut paths = Vec::new();
                flatten_use(&u.tree, &mut Vec::new(), &mut paths);
                let line = u.use_token.span.start().line;
                let mut cfgs = ctx.cfgs.clone();
                cfgs.extend(cfgs_of(&u.attrs));
                let snippet = self.krate.snippet(fname, line);
                self.krate.uses.push(UseInfo { file: fname.to_string(), line, paths, cfgs, snippet });
            }
            _ => {}
        }
    }

    fn add_const(&mut self, fname: &str, ident: &syn::Ident, expr: &syn::Expr) {
        let line = ident.span().start().line;
        let snippet = self.krate.snippet(fname, line);
        self.krate.consts.push(ConstInfo {
            name: ident.to_string(),
            file: fname.to_string(),
            line,
            expr: expr.clone(),
            snippet,
        });
    }

    fn add_fn(&mut self, fname: &str, sig: &syn::Signature, block: &syn::Block, ctx: &Ctx) {
        let name = sig.ident.to_string();
        let qname = match &ctx.self_ty {
            Some(t) => format!("{}::{}", t, name),
            None => name.clone(),
        };
        let self_ty = ctx.self_ty.as_deref();
        let types = &self.krate.types;

        // generic callbacks: F: FnOnce(&Arc<T>) -> U
        let mut cb: BTreeMap<String, Vec<Ty>> = BTreeMap::new();
        for gp in &sig.generics.params {
            if let syn::GenericParam::Type(tp) = gp {
                if let Some(v) = fn_bound_inputs(&tp.bounds, self_ty, types) {
                    cb.insert(tp.ident.to_string(), v);
                }
            }
        }
        if let Some(w) = &sig.generics.where_clause {
            for p in &w.predicates {
                if let syn::WherePredicate::Type(pt) = p {
                    if let Some(id) = type_ident(&pt.bounded_ty) {
                        if let Some(v) = fn_bound_inputs(&pt.bounds, self_ty, types) {
                            cb.insert(id, v);
                        }
                    }
                }
            }
        }

        let mut params = Vec::new();
        let mut closure_sigs = Vec::new();
        let mut has_receiver = false;
        for a in &sig.inputs {
            match a {
                syn::FnArg::Receiver(r) => {
                    has_receiver = true;
                    let t = if r.colon_token.is_some() {
                        ty_of(&r.ty, self_ty, types)
                    } else {
                        self_ty.map(|s| (s.to_string(), if r.reference.is_some() { 1 } else { 0 }))
                    };
                    params.push((Some("self".to_string()), t));
                    closure_sigs.push(None);
                }
                syn::FnArg::Typed(pt) => {
                    let pname = match &*pt.pat {
                        syn::Pat::Ident(pi) => Some(pi.ident.to_string()),
                        _ => None,
                    };
                    params.push((pname, ty_of(&pt.ty, self_ty, types)));
                    let sigc = match &*pt.ty {
                        syn::Type::ImplTrait(it) => fn_bound_inputs(&it.bounds, self_ty, types),
                        other => type_ident(other).and_then(|id| cb.get(&id).cloned()),
                    };
                    closure_sigs.push(sigc);
                }
            }
        }
        let ret = match &sig.output {
            syn::ReturnType::Default => None,
            syn::ReturnType::Type(_, t) => ty_of(t, self_ty, types),
        };
        let norm = format!("{} {}", sig.to_token_stream(), block.to_token_stream());
        let ret_atomic = match &sig.output {
            syn::ReturnType::Default => false,
            syn::ReturnType::Type(_, t) => tokens_have_atomic(t.to_token_stream()),
        };
        if ret_atomic || body_is_count_projection(block) {
            self.krate.count_accessors.insert(name.clone());
        }
        let idx = self.krate.fns.len();
        self.krate.fns.push(FnInfo {
            qname: qname.clone(),
            name: name.clone(),
            self_ty: ctx.self_ty.clone(),
            trait_name: ctx.trait_name.clone(),
            file: fname.to_string(),
            line: sig.ident.span().start().line,
            has_receiver,
            params,
            closure_sigs,
            ret,
            block: block.clone(),
            cfgs: ctx.cfgs.clone(),
            hash: fnv1a(&norm),
            parent: ctx.parent,
            is_pub: ctx.is_pub,
            in_trait_def: ctx.in_trait_def,
        });
        self.krate.by_qname.entry(qname).or_default().push(idx);
        if ctx.self_ty.is_none() {
            self.krate.free_by_name.entry(name.clone()).or_default().push(idx);
        }
        if has_receiver {
            self.krate.methods_by_name.entry(name).or_default().push(idx);
        }

        // items nested in the body (structs, impls, fns) are collected on their own
        let mut n = NestedItems { items: Vec::new() };
        n.visit_block(block);
        let nested_ctx = Ctx { self_ty: None, trait_name: None, cfgs: ctx.cfgs.clone(), parent: Some(idx), is_pub: false, in_trait_def: false };
        for it in n.items {
            // nested struct names are types as well
            match it {
                syn::Item::Struct(s) => {
                    self.krate.types.insert(s.ident.to_string());
                }
                syn::Item::Enum(s) => {
                    self.krate.types.insert(s.ident.to_string());
                }
                _ => {}
            }
        }
        let mut n2 = NestedItems { items: Vec::new() };
        n2.visit_block(block);
        for it in n2.items {
            self.item(fname, it, &nested_ctx);
        }
    }
}

fn tokens_have_atomic(ts: TokenStream) -> bool {
    for t in ts {
        match t {
            TokenTree::Ident(i) => {
                if i.to_string().starts_with("Atomic") {
                    return true;
                }
            }
            TokenTree::Group(g) => {
                if tokens_have_atomic(g.stream()) {
                    return true;
                }
            }
            _ => {}
        }
    }
    false
}

/// the body is one expression (possibly inside `unsafe { }`) that is a projection ending in the field
/// `.count`: `&self.inner().count`, `&mut (*p).count`, `addr_of!((*p).count)` is *not* one (a macro)
fn body_is_count_projection(b: &syn::Block) -> bool {
    fn tail(b: &syn::Block) -> Option<&syn::Expr> {
        match b.stmts.as_slice() {
            [syn::Stmt::Expr(e, None)] => Some(e),
            _ => None,
        }
    }
    fn is_count_field(e: &syn::Expr) -> bool {
        match e {
            syn::Expr::Reference(r) => is_count_field(&r.expr),
            syn::Expr::Paren(p) => is_count_field(&p.expr),
            syn::Expr::Group(g) => is_count_field(&g.expr),
            syn::Expr::Unsafe(u) => tail(&u.block).map(is_count_field).unwrap_or(false),
            syn::Expr::Block(bl) => tail(&bl.block).map(is_count_field).unwrap_or(false),
            syn::Expr::Field(f) => matches!(&f.member, syn::Member::Named(i) if i == "count"),
            _ => false,
        }
    }
    tail(b).map(is_count_field).unwrap_or(false)
}

fn flatten_use(t: &syn::UseTree, prefix: &mut Vec<String>, out: &mut Vec<(Vec<String>, String)>) {
    match t {
        syn::UseTree::Path(p) => {
            prefix.push(p.ident.to_string());
            flatten_use(&p.tree, prefix, out);
            prefix.pop();
        }
        syn::UseTree::Name(n) => {
            let mut v = prefix.clone();
            let id = n.ident.to_string();
            if id != "self" {
                v.push(id.clone());
            }
            let bound = v.last().cloned().unwrap_or(id);
            out.push((v, bound));
        }
        syn::UseTree::Rename(r) => {
            let mut v = prefix.clone();
            v.push(r.ident.to_string());
            out.push((v, r.rename.to_string()));
        }
        syn::UseTree::Glob(_) => {
            let mut v = prefix.clone();
            v.push("*".to_string());
            out.push((v, "*".to_string()));
        }
        syn::UseTree::Group(g) => {
            for i in &g.items {
                flatten_use(i, prefix, out);
            }
        }
    }
}
