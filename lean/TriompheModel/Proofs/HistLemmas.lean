import TriompheModel.Model.Ops
/-!
# Helper lemmas for the invariant of the sequential handle machine (M1), part 1

* the *core view* `cv m b` of a memory: the triple (count, live, leaked) of block `b`, which is all
  the invariant looks at, and how every primitive memory operation changes it (`setAt`);
* lemmas about the slot table (`lookup`, `put`, `del`, `set`, `owners`);
* the invariant in pointwise normal form (`InvC`) and the primitive transitions that preserve it.

Core Lean only.
-/
namespace M1

/-! ## the core view of memory -/

/-- (count, live, leaked) -/
abbrev Core := Nat × Bool × Bool

def Block.core (k : Block) : Core := (k.count, k.live, k.leaked)

/-- the part of memory the invariant can see -/
def cv (m : Mem) (b : Nat) : Option Core := (m.blocks[b]?).map Block.core

/-- pointwise update of a view -/
def setAt (c : Nat → Option Core) (b : Nat) (v : Option Core) : Nat → Option Core :=
  fun j => if j = b then v else c j

@[simp] theorem setAt_same (c : Nat → Option Core) (b : Nat) (v : Option Core) : setAt c b v b = v := by
  simp [setAt]

theorem setAt_ne (c : Nat → Option Core) {b j : Nat} (v : Option Core) (h : j ≠ b) : setAt c b v j = c j := by
  simp [setAt, h]

theorem setAt_apply (c : Nat → Option Core) (b j : Nat) (v : Option Core) :
    setAt c b v j = if j = b then v else c j := rfl

theorem setAt_comm (c : Nat → Option Core) {a b : Nat} (v w : Option Core) (h : a ≠ b) :
    setAt (setAt c a v) b w = setAt (setAt c b w) a v := by
  funext j
  simp only [setAt]
  by_cases h1 : j = b
  · by_cases h2 : j = a
    · exact absurd (h2.symm.trans h1) h
    · subst h1; simp [h2]
  · simp [h1]

theorem setAt_self (c : Nat → Option Core) (b : Nat) : setAt c b (c b) = c := by
  funext j
  simp only [setAt]
  by_cases h1 : j = b
  · simp [h1]
  · simp [h1]

def incC : Core → Core := fun c => (c.1 + 1, c.2.1, c.2.2)
/-- `drop_inner` on the core: last reference → dead, otherwise one less -/
def decC : Core → Core := fun c => if c.1 = 1 then (0, false, c.2.2) else (c.1 - 1, c.2.1, c.2.2)
def leakC : Core → Core := fun c => (c.1, c.2.1, true)
def deadC : Core → Core := fun c => (0, false, c.2.2)

theorem cv_eq_none_iff (m : Mem) (b : Nat) : cv m b = none ↔ m.blocks.length ≤ b := by
  simp [cv]

theorem cv_isSome_iff (m : Mem) (b : Nat) : (cv m b).isSome = true ↔ b < m.blocks.length := by
  simp [cv]

theorem cv_length (m : Mem) : cv m m.blocks.length = none := by
  simp [cv]

theorem cv_eq_some {m : Mem} {b : Nat} {c : Core} (h : cv m b = some c) :
    ∃ k, m.blocks[b]? = some k ∧ k.core = c := by
  simp only [cv, Option.map_eq_some_iff] at h
  exact h

theorem cv_of_get {m : Mem} {b : Nat} {k : Block} (h : m.blocks[b]? = some k) :
    cv m b = some (k.count, k.live, k.leaked) := by
  simp [cv, h, Block.core]

/-- general `upd` with a function whose effect on the core is `g` -/
theorem cv_upd (m : Mem) (b : Nat) (f : Block → Block) (g : Core → Core)
    (hfg : ∀ k, (f k).core = g k.core) :
    cv (m.upd b f) = setAt (cv m) b ((cv m b).map g) := by
  funext j
  simp only [cv, Mem.upd, List.getElem?_modify, setAt]
  by_cases h : j = b
  · subst h
    cases m.blocks[j]? <;> simp [hfg]
  · have h' : ¬ b = j := fun e => h e.symm
    cases m.blocks[j]? <;> simp [h, h']

/-- content-only update: the view does not change -/
theorem cv_upd_content (m : Mem) (b : Nat) (f : Block → Block) (hf : ∀ k, (f k).core = k.core) :
    cv (m.upd b f) = cv m := by
  rw [cv_upd m b f id (by simpa using hf)]
  simp [setAt_self]

@[simp] theorem length_upd (m : Mem) (b : Nat) (f : Block → Block) :
    (m.upd b f).blocks.length = m.blocks.length := by
  simp [Mem.upd]

@[simp] theorem cv_emit (m : Mem) (es : List Event) : cv (m.emit es) = cv m := rfl

@[simp] theorem length_emit (m : Mem) (es : List Event) : (m.emit es).blocks.length = m.blocks.length := rfl

theorem cv_incr (m : Mem) (b : Nat) : cv (incr m b) = setAt (cv m) b ((cv m b).map incC) :=
  cv_upd m b _ incC (fun _ => rfl)

@[simp] theorem length_incr (m : Mem) (b : Nat) : (incr m b).blocks.length = m.blocks.length := by
  simp [incr]

theorem cv_leak (m : Mem) (b : Nat) : cv (m.leak b) = setAt (cv m) b ((cv m b).map leakC) :=
  cv_upd m b _ leakC (fun _ => rfl)

@[simp] theorem length_leak (m : Mem) (b : Nat) : (m.leak b).blocks.length = m.blocks.length := by
  simp [Mem.leak]

theorem cv_decr (m : Mem) (b : Nat) (t : Ty) (len : Nat) :
    cv (decr m b t len) = setAt (cv m) b ((cv m b).map decC) := by
  unfold decr
  split
  · rename_i hn
    have : cv m b = none := by simp [cv, hn]
    rw [this]; simp only [Option.map_none]
    rw [← this, setAt_self]
  · rename_i k hk
    have hc : cv m b = some k.core := by simp [cv, hk]
    split
    · rename_i h1
      simp only [cv_emit]
      rw [cv_upd m b _ deadC (fun _ => rfl), hc]
      simp [decC, deadC, Block.core, h1]
    · rename_i h1
      rw [cv_upd m b _ (fun c => (c.1 - 1, c.2.1, c.2.2)) (fun _ => rfl), hc]
      simp [decC, Block.core, h1]

@[simp] theorem length_decr (m : Mem) (b : Nat) (t : Ty) (len : Nat) :
    (decr m b t len).blocks.length = m.blocks.length := by
  unfold decr
  split
  · rfl
  · split <;> simp

theorem cv_allocBlock (m : Mem) (lay : LY.Layout) (hdr : Option Item) (rl : Option Nat)
    (el : List (Option Item)) :
    cv (allocBlock m lay hdr rl el).1 = setAt (cv m) m.blocks.length (some (1, true, false)) := by
  funext j
  simp only [cv, allocBlock, setAt]
  by_cases h : j = m.blocks.length
  · subst h; simp [Block.core]
  · simp only [h, if_false]
    by_cases h2 : j < m.blocks.length
    · rw [List.getElem?_append_left h2]
    · have h3 : m.blocks.length < j := by omega
      rw [List.getElem?_eq_none (by simp; omega), List.getElem?_eq_none (by omega)]

@[simp] theorem allocBlock_snd (m : Mem) (lay : LY.Layout) (hdr : Option Item) (rl : Option Nat)
    (el : List (Option Item)) : (allocBlock m lay hdr rl el).2 = m.blocks.length := rfl

@[simp] theorem length_allocBlock (m : Mem) (lay : LY.Layout) (hdr : Option Item) (rl : Option Nat)
    (el : List (Option Item)) : (allocBlock m lay hdr rl el).1.blocks.length = m.blocks.length + 1 := by
  simp [allocBlock]

theorem cv_writeVal (m : Mem) (b v : Nat) : cv (writeVal m b v) = cv m := by
  unfold writeVal
  apply cv_upd_content
  intro k
  split
  · rfl
  · split <;> rfl

@[simp] theorem length_writeVal (m : Mem) (b v : Nat) : (writeVal m b v).blocks.length = m.blocks.length := by
  simp [writeVal]

theorem cv_cloneValue (m : Mem) (b : Nat) : cv (cloneValue m b).1 = cv m := by
  unfold cloneValue
  split <;> rfl

@[simp] theorem length_cloneValue (m : Mem) (b : Nat) : (cloneValue m b).1.blocks.length = m.blocks.length := by
  unfold cloneValue
  split <;> rfl

/-! ## the slot table -/

abbrev Slots := List (Nat × HV)

def ownersL (sl : Slots) (b : Nat) : Nat := sl.countP (fun e => e.2.blk == b)
def lookupL (sl : Slots) (i : Nat) : Option HV := (sl.find? (·.1 == i)).map (·.2)
def delL (sl : Slots) (i : Nat) : Slots := sl.filter (·.1 != i)
def setL (sl : Slots) (i : Nat) (h : HV) : Slots := sl.map fun e => if e.1 == i then (i, h) else e

theorem owners_eq (s : State) (b : Nat) : owners s b = ownersL s.slots b := rfl
theorem lookup_eq (s : State) (i : Nat) : lookup s i = lookupL s.slots i := rfl
theorem del_slots (s : State) (m : Mem) (i : Nat) : (s.del m i).slots = delL s.slots i := rfl
theorem set_slots (s : State) (m : Mem) (i : Nat) (h : HV) : (s.set m i h).slots = setL s.slots i h := rfl
theorem put_slots (s : State) (m : Mem) (i : Nat) (h : HV) : (s.put m i h).slots = (i, h) :: s.slots := rfl

theorem ownersL_cons (e : Nat × HV) (sl : Slots) (b : Nat) :
    ownersL (e :: sl) b = ownersL sl b + if e.2.blk = b then 1 else 0 := by
  simp [ownersL, List.countP_cons]

@[simp] theorem ownersL_nil (b : Nat) : ownersL [] b = 0 := rfl

theorem lookupL_none {sl : Slots} {i : Nat} : lookupL sl i = none ↔ ∀ e ∈ sl, e.1 ≠ i := by
  simp [lookupL, List.find?_eq_none]

theorem lookupL_mem {sl : Slots} {i : Nat} {h : HV} (hl : lookupL sl i = some h) : (i, h) ∈ sl := by
  simp only [lookupL, Option.map_eq_some_iff] at hl
  obtain ⟨e, he, rfl⟩ := hl
  have h1 := List.mem_of_find?_eq_some he
  have h2 := List.find?_some he
  simp only [beq_iff_eq] at h2
  cases e; simp_all

theorem keys_cons_nodup {e : Nat × HV} {sl : Slots} (h : ((e :: sl).map (·.1)).Nodup) :
    (∀ x ∈ sl, x.1 ≠ e.1) ∧ (sl.map (·.1)).Nodup := by
  simp only [List.map_cons, List.nodup_cons, List.mem_map, not_exists, not_and] at h
  exact ⟨fun x hx hxe => h.1 x hx hxe, h.2⟩

theorem mem_lookupL {sl : Slots} (hk : (sl.map (·.1)).Nodup) {i : Nat} {h : HV} (hm : (i, h) ∈ sl) :
    lookupL sl i = some h := by
  induction sl with
  | nil => cases hm
  | cons e r ih =>
    obtain ⟨h1, h2⟩ := keys_cons_nodup hk
    rcases List.mem_cons.1 hm with rfl | hm
    · simp [lookupL]
    · have : e.1 ≠ i := fun he => h1 _ hm he.symm
      have ih := ih h2 hm
      have hb : (e.1 == i) = false := by simp [this]
      simp only [lookupL, List.find?_cons, hb] at ih ⊢
      exact ih

theorem delL_of_fresh {sl : Slots} {i : Nat} (h : ∀ e ∈ sl, e.1 ≠ i) : delL sl i = sl := by
  simp only [delL, List.filter_eq_self]
  intro e he; simp [h e he]

theorem mem_delL {sl : Slots} {i : Nat} {e : Nat × HV} : e ∈ delL sl i ↔ e ∈ sl ∧ e.1 ≠ i := by
  simp [delL]

theorem keys_delL {sl : Slots} (hk : (sl.map (·.1)).Nodup) (i : Nat) : ((delL sl i).map (·.1)).Nodup :=
  List.Nodup.sublist (List.Sublist.map _ List.filter_sublist) hk

theorem keys_setL (sl : Slots) (i : Nat) (h : HV) : (setL sl i h).map (·.1) = sl.map (·.1) := by
  simp only [setL, List.map_map]
  apply List.map_congr_left
  intro e _
  by_cases he : e.1 = i <;> simp [he]

theorem mem_setL {sl : Slots} {i : Nat} {h : HV} {e : Nat × HV} (he : e ∈ setL sl i h) :
    (e ∈ sl ∧ e.1 ≠ i) ∨ (e = (i, h) ∧ ∃ x ∈ sl, x.1 = i) := by
  simp only [setL, List.mem_map] at he
  obtain ⟨x, hx, rfl⟩ := he
  by_cases hxi : x.1 = i
  · right; simp only [hxi, beq_self_eq_true, if_true, true_and]; exact ⟨x, hx, hxi⟩
  · left; simp [hxi, hx]

theorem mem_setL_of_ne {sl : Slots} {i : Nat} {h : HV} {e : Nat × HV} (he : e ∈ sl) (hne : e.1 ≠ i) :
    e ∈ setL sl i h := by
  simp only [setL, List.mem_map]
  exact ⟨e, he, by simp [hne]⟩

theorem mem_setL_new {sl : Slots} {i : Nat} {h h0 : HV} (hm : (i, h0) ∈ sl) : (i, h) ∈ setL sl i h := by
  simp only [setL, List.mem_map]
  exact ⟨(i, h0), hm, by simp⟩

theorem ownersL_del {sl : Slots} (hk : (sl.map (·.1)).Nodup) {i : Nat} {h : HV} (hm : (i, h) ∈ sl) (b : Nat) :
    ownersL (delL sl i) b + (if h.blk = b then 1 else 0) = ownersL sl b := by
  induction sl with
  | nil => cases hm
  | cons e r ih =>
    obtain ⟨h1, h2⟩ := keys_cons_nodup hk
    rcases List.mem_cons.1 hm with rfl | hm
    · have : delL ((i, h) :: r) i = r := by
        have := delL_of_fresh (i := i) h1
        simp only [delL, List.filter_cons] at this ⊢
        simp [this]
      rw [this, ownersL_cons]
    · have hne : e.1 ≠ i := fun he => h1 _ hm he.symm
      have : delL (e :: r) i = e :: delL r i := by
        simp [delL, hne]
      rw [this, ownersL_cons, ownersL_cons, ← ih h2 hm]
      omega

theorem ownersL_set {sl : Slots} (hk : (sl.map (·.1)).Nodup) {i : Nat} {h h' : HV} (hm : (i, h) ∈ sl) (b : Nat) :
    ownersL (setL sl i h') b + (if h.blk = b then 1 else 0) = ownersL sl b + (if h'.blk = b then 1 else 0) := by
  induction sl with
  | nil => cases hm
  | cons e r ih =>
    obtain ⟨h1, h2⟩ := keys_cons_nodup hk
    rcases List.mem_cons.1 hm with rfl | hm
    · have : setL ((i, h) :: r) i h' = (i, h') :: r := by
        simp only [setL, List.map_cons, beq_self_eq_true, if_true, List.cons.injEq, true_and]
        conv => rhs; rw [← List.map_id r]
        apply List.map_congr_left
        intro x hx
        have := h1 x hx
        simp at this
        simp [this]
      rw [this, ownersL_cons, ownersL_cons]
      simp only; omega
    · have hne : e.1 ≠ i := fun he => h1 _ hm he.symm
      have : setL (e :: r) i h' = e :: setL r i h' := by
        simp [setL, hne]
      rw [this, ownersL_cons, ownersL_cons]
      have := ih h2 hm
      omega

theorem ownersL_pos {sl : Slots} {e : Nat × HV} (he : e ∈ sl) : 0 < ownersL sl e.2.blk := by
  simp only [ownersL, List.countP_pos_iff]
  exact ⟨e, he, by simp⟩

theorem ownersL_eq_zero {sl : Slots} {b : Nat} (h : ∀ e ∈ sl, e.2.blk ≠ b) : ownersL sl b = 0 := by
  simp only [ownersL, List.countP_eq_zero]
  intro e he; simp [h e he]

theorem ownersL_one_unique {sl : Slots} {b : Nat} (h1 : ownersL sl b = 1) {e e' : Nat × HV}
    (he : e ∈ sl) (hb : e.2.blk = b) (he' : e' ∈ sl) (hb' : e'.2.blk = b) : e = e' := by
  induction sl with
  | nil => cases he
  | cons x r ih =>
    rw [ownersL_cons] at h1
    by_cases hx : x.2.blk = b
    · simp only [hx, if_true] at h1
      have h0 : ownersL r b = 0 := by omega
      have hno : ∀ y ∈ r, y.2.blk ≠ b := by
        intro y hy hyb
        have := ownersL_pos hy
        rw [hyb] at this; omega
      rcases List.mem_cons.1 he with rfl | he
      · rcases List.mem_cons.1 he' with rfl | he'
        · rfl
        · exact absurd hb' (hno _ he')
      · exact absurd hb (hno _ he)
    · simp only [hx, if_false] at h1
      rcases List.mem_cons.1 he with rfl | he
      · exact absurd hb hx
      · rcases List.mem_cons.1 he' with rfl | he'
        · exact absurd hb' hx
        · exact ih h1 he he'

theorem lookupL_cons_ne {sl : Slots} {i j : Nat} {h : HV} (hne : j ≠ i) :
    lookupL ((j, h) :: sl) i = lookupL sl i := by
  simp [lookupL, hne]

theorem lookupL_cons_self {sl : Slots} {i : Nat} {h : HV} : lookupL ((i, h) :: sl) i = some h := by
  simp [lookupL]

end M1
