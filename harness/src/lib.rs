//! Shared parts of the correspondence harness: a tracking global allocator with quarantine, an
//! event log, and identity-tracked payload types.  Each binary under `src/bin/` installs
//! `#[global_allocator] static G: harness::Track = harness::Track;`.
//!
//! Everything here is single-threaded by design (the correspondence runs are sequential); the
//! allocator hooks only record while `recording()` is on, so the harness's own bookkeeping
//! allocations are invisible.
#![allow(static_mut_refs)]
use std::alloc::{GlobalAlloc, Layout, System};
use std::cell::{Cell, RefCell};

pub const MAXB: usize = 1 << 16;
#[derive(Clone, Copy)]
pub struct Rec {
    pub addr: usize,
    pub size: usize,
    pub align: usize,
    pub live: bool,
    /// canonical block number once the harness has identified the allocation as an Arc block
    pub block: i32,
}
static mut RECS: [Rec; MAXB] = [Rec { addr: 0, size: 0, align: 0, live: false, block: -1 }; MAXB];
static mut NREC: usize = 0;

/// One allocator or payload event observed while recording.
#[derive(Clone, Debug, PartialEq, Eq)]
pub enum Ev {
    /// allocation: record index, size, align
    Alloc(usize, usize, usize),
    /// deallocation of a recorded allocation: record index, size, align passed to dealloc
    Dealloc(usize, usize, usize),
    /// deallocation of an already freed recorded allocation
    DoubleFree(usize, usize, usize),
    /// destructor of a tracked value ran
    Drop(u64),
    /// destructor of an already destroyed tracked value ran again
    DoubleDrop(u64),
    /// Clone of a tracked value: source id, new id
    Clone(u64, u64),
    /// a tracked value whose bytes are not a live tracked value was read/dropped (poison / uninit)
    BadRead(u64),
}
pub const MAXE: usize = 1 << 14;
static mut EVS: Vec<Ev> = Vec::new();
thread_local! { static REC: Cell<bool> = const { Cell::new(false) }; }
static mut FAIL_AT: i64 = -1; // fail the k-th recorded allocation from now (0 = next); -1 = never
static mut QUARANTINE: bool = true;

pub fn recording() -> bool { REC.try_with(|r| r.get()).unwrap_or(false) }
pub fn set_recording(on: bool) -> bool { REC.with(|r| r.replace(on)) }
/// Run `f` with recording switched off (for harness-internal allocations inside callbacks).
pub fn unrecorded<R>(f: impl FnOnce() -> R) -> R { let o = set_recording(false); let r = f(); set_recording(o); r }
pub fn fail_alloc_at(k: i64) { unsafe { FAIL_AT = k; } }
pub fn set_quarantine(on: bool) { unsafe { QUARANTINE = on; } }

pub fn push_ev(e: Ev) { unrecorded(|| unsafe { if EVS.len() < MAXE { EVS.push(e); } }) }
pub fn take_events() -> Vec<Ev> { unrecorded(|| unsafe { std::mem::take(&mut EVS) }) }

pub struct Track;
unsafe impl GlobalAlloc for Track {
    unsafe fn alloc(&self, l: Layout) -> *mut u8 {
        if recording() {
            if FAIL_AT == 0 { FAIL_AT = -1; return std::ptr::null_mut(); }
            if FAIL_AT > 0 { FAIL_AT -= 1; }
        }
        let p = System.alloc(l);
        if recording() && !p.is_null() {
            // fresh memory is POISONED while a library call is being recorded: a read (or a destructor run) on a slot that was
            // never written sees 0xA5.. instead of whatever the system allocator left there
            std::ptr::write_bytes(p, 0xA5, l.size());
        }
        if recording() && NREC < MAXB && !p.is_null() {
            RECS[NREC] = Rec { addr: p as usize, size: l.size(), align: l.align(), live: true, block: -1 };
            let i = NREC;
            NREC += 1;
            push_ev(Ev::Alloc(i, l.size(), l.align()));
        }
        p
    }
    unsafe fn dealloc(&self, p: *mut u8, l: Layout) {
        // newest record first: addresses of non-quarantined blocks may be reused
        let mut i = NREC;
        while i > 0 {
            i -= 1;
            if RECS[i].addr == p as usize {
                if !RECS[i].live {
                    push_ev(Ev::DoubleFree(i, l.size(), l.align()));
                    return; // swallow: the memory is quarantined, nothing breaks
                }
                RECS[i].live = false;
                push_ev(Ev::Dealloc(i, l.size(), l.align()));
                if QUARANTINE {
                    // poison and keep: a later read through a dangling handle sees 0xDD, a later
                    // free is recognised as a double free
                    std::ptr::write_bytes(p, 0xDD, RECS[i].size);
                    return;
                }
                RECS[i].addr = 0;
                break;
            }
        }
        System.dealloc(p, l)
    }
}

/// The record (index, offset) whose address range contains `addr` (newest first).  A pointer one
/// past the end (the data pointer of an empty slice / zero-sized payload) belongs to the block it
/// ends, unless another recorded block starts exactly there.
pub fn rec_of(addr: usize) -> Option<(usize, usize)> {
    unsafe {
        let mut i = NREC;
        while i > 0 {
            i -= 1;
            let r = &RECS[i];
            if r.addr != 0 && addr >= r.addr && addr < r.addr + r.size { return Some((i, addr - r.addr)); }
        }
        let mut i = NREC;
        while i > 0 {
            i -= 1;
            let r = &RECS[i];
            if r.addr != 0 && addr == r.addr + r.size { return Some((i, addr - r.addr)); }
        }
    }
    None
}
pub fn rec(i: usize) -> Rec { unsafe { RECS[i] } }
pub fn set_block(i: usize, b: i32) { unsafe { RECS[i].block = b; } }
pub fn nrec() -> usize { unsafe { NREC } }

// ------------------------------------------------------------------------------------------------
// identity-tracked payloads

/// registry of live tracked identities: id -> live?
static mut LIVE_IDS: Vec<(u64, bool)> = Vec::new();
static mut NEXT_CLONE: u64 = 1_000_000;
thread_local! { static CLONE_PANIC_AT: Cell<i64> = const { Cell::new(-1) }; }
pub const MAGIC: u32 = 0x7A3C_91E5;

fn id_state(id: u64) -> Option<bool> { unsafe { LIVE_IDS.iter().rev().find(|e| e.0 == id).map(|e| e.1) } }
fn id_set(id: u64, live: bool) {
    unrecorded(|| unsafe {
        if let Some(e) = LIVE_IDS.iter_mut().rev().find(|e| e.0 == id) { e.1 = live; } else { LIVE_IDS.push((id, live)); }
    })
}
/// panic inside the k-th `Clone::clone` of a tracked value from now (0 = next); -1 = never
pub fn clone_panic_at(k: i64) { CLONE_PANIC_AT.with(|c| c.set(k)); }
pub fn reset_clone_counter() { unsafe { NEXT_CLONE = 1_000_000; } }

thread_local! { static CLONE_HOOK: RefCell<Option<Box<dyn FnMut()>>> = RefCell::new(None); }
/// user code inside `T::clone` (called by make_mut / make_unique / unwrap_or_clone): the hook, if armed, runs ONCE at the
/// start of the next `Tracked::clone` — re-entrant use of other handles to the same value from inside the library call
pub fn set_clone_hook(h: Option<Box<dyn FnMut()>>) { CLONE_HOOK.with(|c| *c.borrow_mut() = h); }
fn run_clone_hook() { let h = CLONE_HOOK.with(|c| c.borrow_mut().take()); if let Some(mut f) = h { f(); } }

/// An 8-byte, 4-aligned payload with an identity, a mutable value, and logged drop/clone.
#[cfg(not(feature = "t_zst"))]
#[repr(C)]
pub struct Tracked { pub id: u32, pub val: u32 }
#[cfg(not(feature = "t_zst"))]
impl Tracked {
    pub fn new(id: u32, val: u32) -> Self { id_set(id as u64, true); Tracked { id, val } }
    /// read (id, val) checking that this is a live tracked value (not poison / uninit / dropped)
    pub fn read(&self) -> (u32, u32) {
        if id_state(self.id as u64) != Some(true) { push_ev(Ev::BadRead(self.id as u64)); }
        (self.id, self.val)
    }
    pub fn set_val(&mut self, v: u32) { self.val = v; }
}
#[cfg(not(feature = "t_zst"))]
impl Drop for Tracked {
    fn drop(&mut self) {
        match id_state(self.id as u64) {
            Some(true) => { id_set(self.id as u64, false); push_ev(Ev::Drop(self.id as u64)); }
            Some(false) => push_ev(Ev::DoubleDrop(self.id as u64)),
            None => push_ev(Ev::BadRead(self.id as u64)),
        }
    }
}
#[cfg(not(feature = "t_zst"))]
impl Clone for Tracked {
    fn clone(&self) -> Self {
        run_clone_hook();
        let k = CLONE_PANIC_AT.with(|c| c.get());
        if k == 0 { CLONE_PANIC_AT.with(|c| c.set(-1)); panic!("scripted clone panic"); }
        if k > 0 { CLONE_PANIC_AT.with(|c| c.set(k - 1)); }
        let (id, val) = self.read();
        let nid = unsafe { let n = NEXT_CLONE; NEXT_CLONE += 1; n };
        push_ev(Ev::Clone(id as u64, nid));
        Tracked::new(nid as u32, val)
    }
}

/// `--features t_zst`: the same payload as a ZERO-SIZED type (no identity, no value: destructor and
/// clone runs are still logged, as `drop:0` / `clone:0>n`).  The history model is generic in the
/// values, so every count, verdict, allocation identity and event *count* must carry over.
#[cfg(feature = "t_zst")]
pub struct Tracked;
#[cfg(feature = "t_zst")]
impl Tracked {
    pub fn new(_id: u32, _val: u32) -> Self { Tracked }
    pub fn read(&self) -> (u32, u32) { (0, 0) }
    pub fn set_val(&mut self, _v: u32) {}
}
#[cfg(feature = "t_zst")]
impl Drop for Tracked { fn drop(&mut self) { push_ev(Ev::Drop(0)); } }
#[cfg(feature = "t_zst")]
impl Clone for Tracked {
    fn clone(&self) -> Self {
        run_clone_hook();
        let k = CLONE_PANIC_AT.with(|c| c.get());
        if k == 0 { CLONE_PANIC_AT.with(|c| c.set(-1)); panic!("scripted clone panic"); }
        if k > 0 { CLONE_PANIC_AT.with(|c| c.set(k - 1)); }
        let nid = unsafe { let n = NEXT_CLONE; NEXT_CLONE += 1; n };
        push_ev(Ev::Clone(0, nid));
        Tracked
    }
}

/// A second tracked type with a different size and an OVER-ALIGNED layout (16 bytes, align 16: the
/// data field of its ArcInner sits at offset 16, not 8) for ArcUnion's second variant and for the
/// raw-pointer / ArcBorrow paths of sized payloads.
#[repr(C, align(16))]
pub struct TrackedB { pub id: u64, pub val: u64 }
impl TrackedB {
    pub fn new(id: u64, val: u64) -> Self { id_set(id, true); TrackedB { id, val } }
    pub fn read(&self) -> (u64, u64) {
        if id_state(self.id) != Some(true) { push_ev(Ev::BadRead(self.id)); }
        (self.id, self.val)
    }
}
impl Drop for TrackedB {
    fn drop(&mut self) {
        match id_state(self.id) {
            Some(true) => { id_set(self.id, false); push_ev(Ev::Drop(self.id)); }
            Some(false) => push_ev(Ev::DoubleDrop(self.id)),
            None => push_ev(Ev::BadRead(self.id)),
        }
    }
}
impl Clone for TrackedB {
    fn clone(&self) -> Self {
        let (id, val) = self.read();
        let nid = unsafe { let n = NEXT_CLONE; NEXT_CLONE += 1; n };
        push_ev(Ev::Clone(id, nid));
        TrackedB::new(nid, val)
    }
}

// ------------------------------------------------------------------------------------------------
// comparison / hashing / formatting of the tracked payloads: by VALUE (`val`), never by identity.
// Every trait method first calls `cmp_hook()`: it runs the probe the harness installed (the counts of
// the handles under comparison, *while the library's borrow is in use*) and panics when armed.
thread_local! {
    static CMP_ARMED: Cell<bool> = Cell::new(false);
    static CMP_PROBE: RefCell<Option<Box<dyn Fn() -> String>>> = RefCell::new(None);
    static CMP_SEEN: RefCell<Vec<String>> = RefCell::new(Vec::new());
    static CMP_CALLS: Cell<usize> = Cell::new(0);
}
pub fn cmp_arm(on: bool) { CMP_ARMED.with(|c| c.set(on)); }
pub fn cmp_set_probe(p: Option<Box<dyn Fn() -> String>>) { CMP_PROBE.with(|c| *c.borrow_mut() = p); }
pub fn cmp_take_seen() -> (Vec<String>, usize) { (CMP_SEEN.with(|c| std::mem::take(&mut *c.borrow_mut())), CMP_CALLS.with(|c| c.replace(0))) }
pub fn cmp_hook() {
    let _u = Unrec::new();
    CMP_CALLS.with(|c| c.set(c.get() + 1));
    let seen = CMP_PROBE.with(|p| p.borrow().as_ref().map(|f| f()));
    if let Some(x) = seen { CMP_SEEN.with(|c| { let mut v = c.borrow_mut(); if !v.contains(&x) { v.push(x); } }); }
    if CMP_ARMED.with(|c| c.get()) { panic!("scripted comparison panic"); }
}
macro_rules! value_traits {
    ($t:ty, $key:expr) => {
        impl PartialEq for $t { fn eq(&self, o: &Self) -> bool { cmp_hook(); $key(self) == $key(o) } }
        impl Eq for $t {}
        impl PartialOrd for $t { fn partial_cmp(&self, o: &Self) -> Option<std::cmp::Ordering> { cmp_hook(); Some($key(self).cmp(&$key(o))) } }
        impl Ord for $t { fn cmp(&self, o: &Self) -> std::cmp::Ordering { cmp_hook(); $key(self).cmp(&$key(o)) } }
        impl std::hash::Hash for $t { fn hash<H: std::hash::Hasher>(&self, h: &mut H) { cmp_hook(); h.write_u64($key(self)); } }
        impl std::fmt::Debug for $t { fn fmt(&self, f: &mut std::fmt::Formatter) -> std::fmt::Result { cmp_hook(); write!(f, "v{}", $key(self)) } }
    };
}
value_traits!(Tracked, |x: &Tracked| x.read().1 as u64);
/// `Arc::<Tracked>::default()`: a fixed identity outside the range the generators use
pub const DEFAULT_ID: u32 = 4_000_000;
impl Default for Tracked { fn default() -> Self { Tracked::new(DEFAULT_ID, 0) } }
value_traits!(TrackedB, |x: &TrackedB| x.read().1);

/// Trait for `dyn` payloads.
pub trait Tr { fn read_dyn(&self) -> (u32, u32); }
impl Tr for Tracked { fn read_dyn(&self) -> (u32, u32) { self.read() } }

/// Silence the default panic message (panics are expected observations).  The hook also switches
/// recording off: what the panic runtime allocates afterwards (the boxed payload / exception) is
/// not the library's doing.  Deallocations of recorded blocks are logged regardless.
pub fn quiet_panics() { std::panic::set_hook(Box::new(|_| { let _ = REC.try_with(|r| r.set(false)); })); }

/// Run a call into the library under test with recording ON (everything else the harness does is
/// unrecorded).
pub fn lib<R>(f: impl FnOnce() -> R) -> R { let o = set_recording(true); let r = f(); set_recording(o); r }

/// Guard for harness code that runs *inside* a library call (callbacks): recording off until dropped.
pub struct Unrec(bool);
impl Unrec { pub fn new() -> Self { Unrec(set_recording(false)) } }
impl Drop for Unrec { fn drop(&mut self) { if !std::thread::panicking() { set_recording(self.0); } } }

/// Classify a panic payload into a small enum for canonical output.
pub fn panic_class(p: &(dyn std::any::Any + Send)) -> &'static str {
    let s: &str = if let Some(s) = p.downcast_ref::<&str>() { s } else if let Some(s) = p.downcast_ref::<String>() { s.as_str() } else { "" };
    if s.contains("scripted") { "scripted" }
    else if s.contains("over-reported") { "over-reported" }
    else if s.contains("under-reported") { "under-reported" }
    else if s.contains("Need to think about ZST") { "zst" }
    else if s.contains("must be unique") { "not-unique" }
    else if s.contains("Length needs to be correct") { "length-mismatch" }
    else if s.contains("size hint lower == upper") { "size-hint" }
    else if s.contains("called `Result::unwrap()`") || s.contains("LayoutError") || s.contains("capacity overflow") { "layout-overflow" }
    else { "other" }
}
