import TriompheModel.WM.Ownership
/-!
# Runs of the ownership semantics, and `Protocol` for them *by the theorem*

`ExTwo`: two threads.  Thread 0 clones handle 0 into handle 1, hands handle 1 to thread 1, and reads the payload;
thread 1 reads the payload and drops handle 1 (the count goes 2 → 1); thread 0 drops handle 0 (1 → 0), performs the
Acquire fence load and destroys the allocation.

The happens-before relation is the closure of what the run recorded (program order, the hand-over edge) and the one
synchronises-with edge `Consistent` demands (thread 1's Release decrement → the Acquire fence load).
`Protocol` and `ViaBorn` come from `protocol_of_run` / `viaBorn_of_run`; only `Consistent` (an axiom of the memory model,
not of the program) is checked by the Boolean checker of `WM/FinExec.lean`.

`ExMut`: a `get_mut`-shaped run, with `MutExcl` from `mutExcl_of_run`, feeding `later_sharers_after_write`.
-/
open Facts
namespace WM
namespace Own
set_option maxRecDepth 20000

/-! ## the semantics refuses programs that violate ownership -/

/-- using a handle one does not own -/
example : exec .release (some .acquire) Cfg.init [(1, .access 0)] = none := by decide +kernel
/-- using a handle after dropping it -/
example : exec .release (some .acquire) Cfg.init [(0, .drop 0 none), (0, .access 0)] = none := by decide +kernel
/-- using a handle after sending it away -/
example : exec .release (some .acquire) Cfg.init [(0, .clone 0 1), (0, .send 1 1), (0, .access 1)] = none := by
  decide +kernel
/-- re-using a handle name -/
example : exec .release (some .acquire) Cfg.init [(0, .clone 0 1), (0, .clone 0 1)] = none := by decide +kernel

namespace ExTwo

def steps : List (Nat × Instr) :=
  [ (0, .clone 0 1),        -- RMW 0 = inc 1 0
    (0, .send 1 1),         -- handle 1 goes to thread 1
    (0, .access 0),         -- event 0
    (1, .access 1),         -- event 1
    (1, .drop 1 none),      -- RMW 1 = dec 1, read 2: no destruction
    (0, .drop 0 (some 2)) ] -- RMW 2 = dec 0, read 1: event 2 = fence load (reads RMW 2), event 3 = destroy

def exRun : Run .release (some .acquire) := Run.ofSteps _ _ steps (by decide +kernel)

/-- what the run recorded -/
example : exRun.final.ops = [Op.inc 1 0, Op.dec 1, Op.dec 0] := by decide +kernel
example : exRun.final.ords = [.relaxed, .release, .release] := by decide +kernel
example : exRun.final.kinds = [.access 0, .access 1, .fenceLoad 2 .acquire (some 2), .destroy 2] := by decide +kernel
example : exRun.final.sw = [(.rmw 0, .oth 1)] := by decide +kernel

abbrev EA := Fin 4
/-- program order ∪ hand-over edges (both computed from the run) ∪ the synchronises-with edge, closed -/
def exPairs : List (Ev EA × Ev EA) := hbPairs exRun.final [(.rmw 1, .oth 2)]
def exF : FinExec := finOf exRun.final exPairs
abbrev exX : CountExec := exF.toExec

/-- the induced execution, literally -/
example : exX = execOf exRun.final (fun x y => (x, y) ∈ exPairs) := rfl

/-- the memory-model side: by the checker -/
theorem ex_consistent : Consistent exX := FinExec.checkConsistent_sound (by decide +kernel)

theorem ex_po : ∀ x y : Ev EA, (lift x, lift y) ∈ exRun.final.po → (x, y) ∈ exPairs :=
  coversB_sound (by decide +kernel)
theorem ex_sw : ∀ x y : Ev EA, (lift x, lift y) ∈ exRun.final.sw → (x, y) ∈ exPairs :=
  coversB_sound (by decide +kernel)

/-- the program side: **by the theorem**, not by the checker -/
theorem ex_protocol : Protocol exX .release (some .acquire) :=
  protocol_of_run exRun (fun x y => (x, y) ∈ exPairs) ex_po ex_sw (fun _ _ _ => ex_consistent.hb_trans)

theorem ex_viaborn : ViaBorn exX :=
  viaBorn_of_run exRun (fun x y => (x, y) ∈ exPairs) ex_po ex_sw (fun _ _ _ => ex_consistent.hb_trans)

/-- (the checker agrees) -/
example : exF.checkProtocol .release (some .acquire) = true := by decide +kernel

/-- `destroy_after_all` for the run: the destroying decrement is the last RMW, both payload reads and both other RMWs
happen-before the destruction -/
theorem ex_destroy :
    2 + 1 = exX.ops.length ∧
    (∀ a h, (exX.kind a).via = some h → exX.hb (.oth a) (.oth (3 : EA))) ∧
    (∀ i, i < exX.ops.length → i ≠ 2 → exX.hb (.rmw i) (.oth (3 : EA))) :=
  destroy_after_all ex_consistent ex_protocol rfl (Or.inr ⟨.acquire, rfl, rfl⟩) (f := (3 : EA)) (k := 2) rfl

/-- in particular thread 1's read of the payload happens-before the destruction by thread 0 -/
example : exX.hb (.oth (1 : EA)) (.oth (3 : EA)) := ex_destroy.2.1 (1 : EA) 1 rfl

end ExTwo

/-! ## a `get_mut`-shaped run -/
namespace ExMut

/-- thread 0: clone 0→1, give 1 to thread 1; thread 1: read, drop (Release); thread 0: Acquire load of the count
through handle 0 reading that decrement (value 1), write the payload, then clone 0→2 and give 2 to thread 2, which
reads. -/
def steps : List (Nat × Instr) :=
  [ (0, .clone 0 1), (0, .send 1 1),
    (1, .access 1),                    -- event 0
    (1, .drop 1 none),                 -- RMW 1
    (0, .load 0 .acquire (some 1)),    -- event 1 = l
    (0, .access 0),                    -- event 2 = w
    (0, .clone 0 2), (0, .send 2 2),   -- RMW 2
    (2, .access 2) ]                   -- event 3

def exRun : Run .release (some .acquire) := Run.ofSteps _ _ steps (by decide +kernel)

abbrev EA := Fin 4
def exPairs : List (Ev EA × Ev EA) := hbPairs exRun.final [(.rmw 1, .oth 1)]
def exF : FinExec := finOf exRun.final exPairs
abbrev exX : CountExec := exF.toExec

theorem ex_consistent : Consistent exX := FinExec.checkConsistent_sound (by decide +kernel)
theorem ex_po : ∀ x y : Ev EA, (lift x, lift y) ∈ exRun.final.po → (x, y) ∈ exPairs :=
  coversB_sound (by decide +kernel)
theorem ex_sw : ∀ x y : Ev EA, (lift x, lift y) ∈ exRun.final.sw → (x, y) ∈ exPairs :=
  coversB_sound (by decide +kernel)

theorem ex_protocol : Protocol exX .release (some .acquire) :=
  protocol_of_run exRun (fun x y => (x, y) ∈ exPairs) ex_po ex_sw (fun _ _ _ => ex_consistent.hb_trans)
theorem ex_viaborn : ViaBorn exX :=
  viaBorn_of_run exRun (fun x y => (x, y) ∈ exPairs) ex_po ex_sw (fun _ _ _ => ex_consistent.hb_trans)

/-- the two clones of handle 0 sit at positions 0 and 2 of the modification order; the load was issued after 2 RMWs,
the write after 2 RMWs: no clone of handle 0 in between -/
theorem ex_mutexcl : MutExcl exX (1 : EA) (2 : EA) 0 :=
  mutExcl_of_run exRun (fun x y => (x, y) ∈ exPairs) ex_po ex_sw (fun _ _ _ => ex_consistent.hb_trans)
    (l := (1 : EA)) (w := (2 : EA)) rfl rfl (by
      intro i ch _
      have hs1 : stamp exRun.final (1 : EA) = 2 := by decide +kernel
      have hs2 : stamp exRun.final (2 : EA) = 2 := by decide +kernel
      rw [hs1, hs2]
      exact Nat.lt_or_ge i 2)

theorem ex_corw : CoRW exX := FinExec.checkCoRW_sound (F := exF) (by decide +kernel)

/-- thread 2's read through the later handle 2 happens-after the granted write -/
theorem ex_w_before_a3 : exX.hb (.oth (2 : EA)) (.oth (3 : EA)) :=
  later_sharers_after_write ex_consistent ex_protocol ex_corw ex_viaborn
    (l := (1 : EA)) (w := (2 : EA)) (h := 0) (o := .acquire) (rf := some 1) rfl (by decide +kernel) ex_mutexcl
    (3 : EA) 2 rfl (by decide) (FinExec.checkLate_sound (F := exF) (by decide +kernel))

end ExMut

end Own
end WM

#print axioms WM.Own.ExTwo.ex_protocol
#print axioms WM.Own.ExTwo.ex_destroy
#print axioms WM.Own.ExMut.ex_w_before_a3
