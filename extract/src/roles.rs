//! Roles instead of names.
//!
//! The Lean obligations speak about two places: "the increment in `Arc::clone`" and "the decrement /
//! fence in `Arc::drop_inner`".  What they mean is a *role*: the code that runs when an `Arc` is
//! cloned (`<Arc as Clone>::clone`) resp. dropped (`<Arc as Drop>::drop`) — however that code is split
//! into private helpers and whatever those helpers are called.  This module decides which functions
//! play these roles:
//!
//! * the role's entry point itself (`impl Clone for Arc { fn clone }`, every `impl Drop for Arc { fn drop }`);
//! * a *helper* (a function that is not an entry point of the crate, see `FnInfo::is_entry`) **all** of
//!   whose owners are entry points of the role.  The owners of a helper are the entry points from which
//!   it can be reached through helpers only, over an over-approximated caller relation: resolved call
//!   edges (debug-only ones included), functions used as values, and — for method / path calls that
//!   could not be resolved — every crate function of that name.  A helper whose name is mentioned in a
//!   top-level macro has an unknown owner.
//!
//! A helper that is *also* reachable from any other entry point (`ArcBorrow::clone_arc`, `try_unwrap`,
//! `ArcUnion::drop`, …) keeps its own name: a count write there is a different place, and the census
//! obligations fail on it.  Functions nobody calls have no owner and keep their name as well.

use std::collections::BTreeSet;

use proc_macro2::{TokenStream, TokenTree};

use crate::analyze::BodyFacts;
use crate::collect::Crate;

pub const ROLE_CLONE: &str = "Arc::clone";
pub const ROLE_DROP: &str = "Arc::drop_inner";

pub struct Roles {
    /// `impl Clone for Arc { fn clone }`
    pub clone_entries: BTreeSet<usize>,
    /// `impl Drop for Arc { fn drop }` (all cfg variants)
    pub drop_entries: BTreeSet<usize>,
    /// canonical name of every function that plays a role
    pub canon: Vec<Option<&'static str>>,
    /// over-approximated callers of every function
    pub callers: Vec<BTreeSet<usize>>,
    /// the function's name occurs in a top-level macro (`macro_rules!` body …) or in the initialiser of a
    /// `const` / `static`
    pub in_macro: Vec<bool>,
}

fn idents(ts: TokenStream, out: &mut BTreeSet<String>) {
    for t in ts {
        match t {
            TokenTree::Ident(i) => {
                out.insert(i.to_string());
            }
            TokenTree::Group(g) => idents(g.stream(), out),
            _ => {}
        }
    }
}

impl Roles {
    pub fn compute(krate: &Crate, bodies: &[BodyFacts]) -> Roles {
        let n = krate.fns.len();
        let entries_of = |q: &str, tr: &str| -> BTreeSet<usize> {
            krate.by_qname.get(q).map(|v| v.iter().copied().filter(|&i| krate.fns[i].trait_name.as_deref() == Some(tr)).collect()).unwrap_or_default()
        };
        let clone_entries = entries_of("Arc::clone", "Clone");
        let drop_entries = entries_of("Arc::drop", "Drop");

        let mut callers: Vec<BTreeSet<usize>> = vec![BTreeSet::new(); n];
        for (f, b) in bodies.iter().enumerate() {
            for e in b.edges.iter().chain(b.loose_edges.iter()) {
                for &t in &e.targets {
                    if t != f {
                        callers[t].insert(f);
                    }
                }
            }
        }
        let mut macro_idents = BTreeSet::new();
        for (_, _, ts) in &krate.macro_items {
            idents(ts.clone(), &mut macro_idents);
        }
        // a function stored in a `const` / `static` (a table of function pointers) can be called from anywhere
        for c in &krate.consts {
            idents(quote::ToTokens::to_token_stream(&c.expr), &mut macro_idents);
        }
        let in_macro: Vec<bool> = krate.fns.iter().map(|f| macro_idents.contains(&f.name)).collect();

        let mut r = Roles { clone_entries, drop_entries, canon: vec![None; n], callers, in_macro };
        for g in 0..n {
            r.canon[g] = r.role_of(krate, g);
        }
        r
    }

    /// entry points from which the helper `g` is reachable through helpers only; `None` = unknown
    /// (no caller at all, or mentioned in a macro)
    pub fn owners(&self, krate: &Crate, g: usize) -> Option<BTreeSet<usize>> {
        let mut seen: BTreeSet<usize> = BTreeSet::new();
        seen.insert(g);
        let mut todo = vec![g];
        let mut res = BTreeSet::new();
        while let Some(x) = todo.pop() {
            if self.in_macro[x] {
                return None;
            }
            for &c in &self.callers[x] {
                if krate.fns[c].is_entry() {
                    res.insert(c);
                } else if seen.insert(c) {
                    todo.push(c);
                }
            }
        }
        if res.is_empty() {
            None
        } else {
            Some(res)
        }
    }

    fn role_of(&self, krate: &Crate, g: usize) -> Option<&'static str> {
        if self.clone_entries.contains(&g) {
            return Some(ROLE_CLONE);
        }
        if self.drop_entries.contains(&g) {
            return Some(ROLE_DROP);
        }
        if krate.fns[g].is_entry() {
            return None;
        }
        let o = self.owners(krate, g)?;
        if !self.clone_entries.is_empty() && o.is_subset(&self.clone_entries) {
            return Some(ROLE_CLONE);
        }
        if !self.drop_entries.is_empty() && o.is_subset(&self.drop_entries) {
            return Some(ROLE_DROP);
        }
        None
    }

    /// the name a site in function `f` is reported under
    pub fn display_name(&self, krate: &Crate, f: usize) -> String {
        match self.canon.get(f).copied().flatten() {
            Some(c) => c.to_string(),
            None => {
                let q = &krate.fns[f].qname;
                if q == ROLE_CLONE || q == ROLE_DROP {
                    // called like a role but not playing it (e.g. a `drop_inner` that other entry points
                    // call as well): must not be mistaken for the role by a consumer that compares names
                    format!("{}#not-the-role", q)
                } else {
                    q.clone()
                }
            }
        }
    }
}
