import TriompheModel.Model.Handles
/-!
# M1/M3, macro level — the op language of the correspondence and its interpreter `step`

`State` = memory + a table of slots holding *owning* handle values (raw pointers handed out by
`into_raw`-style calls and not yet taken back are slots too).  `step` is total: an op applied to an
empty / wrongly typed slot is `bad-op` and leaves the state unchanged (the Rust harness does the
same), which also makes any subsequence of a history runnable.
-/
namespace M1
open LY

structure State where
  mem : Mem
  slots : List (Nat × HV)
deriving Repr, Inhabited

def State.init : State := ⟨⟨[], [], 1000000⟩, []⟩

def lookup (s : State) (i : Nat) : Option HV := (s.slots.find? (·.1 == i)).map (·.2)
def State.put (s : State) (m : Mem) (i : Nat) (h : HV) : State := ⟨m, (i, h) :: s.slots⟩
def State.del (s : State) (m : Mem) (i : Nat) : State := ⟨m, s.slots.filter (·.1 != i)⟩
/-- replace the handle value held in slot `i` -/
def State.set (s : State) (m : Mem) (i : Nat) (h : HV) : State :=
  ⟨m, s.slots.map fun e => if e.1 == i then (i, h) else e⟩

/-- number of owning handle values (of every kind) that refer to block `b` -/
def owners (s : State) (b : Nat) : Nat := s.slots.countP (fun e => e.2.blk == b)

/-- result line of one op -/
structure Out where
  status : String        -- ok | bad-op | panic:<class>
  out : String           -- op-specific observation
deriving Repr, Inhabited

def ok (o : String := "") : Out := ⟨"ok", o⟩
def badOp : Out := ⟨"bad-op", ""⟩
def panicked (cls : String) (o : String := "") : Out := ⟨"panic:" ++ cls, o⟩

/-! ## constructors -/

inductive Ctor
  | new (v : Item)                       -- Arc::new(Tracked)
  | newB (v : Item)                      -- Arc::new(TrackedB)
  | fromBox (v : Item)                   -- Arc::from(Box<Tracked>)
  | uniqueNew (v : Item)                 -- UniqueArc::new(Tracked)
  | fromVec (vs : List Item)             -- Arc<[Tracked]>::from(Vec)
  | hsFromVec (h : Item) (vs : List Item)            -- Arc::from_header_and_vec(h, vec)
  | hwlFromVec (h : Item) (recd : Nat) (vs : List Item) -- from_header_and_vec(HeaderWithLength::new(h, recd), vec)
  | newUninit                            -- Arc::<MaybeUninit<Tracked>>::new_uninit()
  | uniqueNewUninit                      -- UniqueArc::<Tracked>::new_uninit()
  | newUninitSlice (n : Nat)             -- Arc::<[MaybeUninit<Tracked>]>::new_uninit_slice(n)
  | uniqueNewUninitSlice (n : Nat)       -- UniqueArc::new_uninit_slice(n)
  | hsUninit (h : Item) (n : Nat)        -- UniqueArc::from_header_and_uninit_slice(h, n)
deriving Repr, Inhabited

/-- `Arc::allocate_for_header_and_slice::<H, T>(len)` then initialising header / slice -/
def allocHeaderSlice (m : Mem) (hdrLay elemLay : Layout) (hdr : Option Item) (recLen : Option Nat)
    (elems : List (Option Item)) : Option (Mem × Nat) :=
  match allocLayoutHeaderSlice bits hdrLay elemLay elems.length with
  | none => none                      -- the `unwrap()` on the layout computation panics
  | some lay => some (allocBlock m lay hdr recLen elems)

def runCtor (m : Mem) : Ctor → Option (Mem × HV)
  | .new v => some (Arc.new m .sized (some v))
  | .newB v => some (Arc.new m .sizedB (some v))
  | .fromBox v =>
      -- `allocate_for_layout(Layout::for_value(&*b))`, copy, free the box without dropping `T`
      match allocLayoutFor bits trackedLay with
      | none => none
      | some lay => let (m, b) := allocBlock m lay none none [some v]; some (m, ⟨.arc, .sized, b, 0, 0⟩)
  | .uniqueNew v => some (UniqueArc.new m .sized (some v))
  | .fromVec vs =>
      -- `Arc::from_header_and_vec((), v).into()`
      (allocHeaderSlice m unitLayout trackedLay none none (vs.map some)).map fun (m, b) =>
        (m, Arc.erase_header ⟨.arc, .uslice, b, 0, vs.length⟩)
  | .hsFromVec h vs =>
      (allocHeaderSlice m trackedLay trackedLay (some h) none (vs.map some)).map fun (m, b) =>
        (m, ⟨.arc, .hs, b, 0, vs.length⟩)
  | .hwlFromVec h recd vs =>
      (allocHeaderSlice m Ty.hwl.hdrLay trackedLay (some h) (some recd) (vs.map some)).map fun (m, b) =>
        (m, ⟨.arc, .hwl, b, 0, vs.length⟩)
  | .newUninit => some (Arc.new m .mu none)
  | .uniqueNewUninit => some (UniqueArc.new_uninit m)
  | .newUninitSlice n =>
      -- `UniqueArc::new_uninit_slice(len).shareable()`
      (allocHeaderSlice m unitLayout trackedLay none none (List.replicate n none)).map fun (m, b) =>
        (m, ⟨.arc, .muSlice, b, 0, n⟩)
  | .uniqueNewUninitSlice n =>
      (allocHeaderSlice m unitLayout trackedLay none none (List.replicate n none)).map fun (m, b) =>
        (m, ⟨.uniq, .muSlice, b, 0, n⟩)
  | .hsUninit h n =>
      (allocHeaderSlice m trackedLay trackedLay (some h) none (List.replicate n none)).map fun (m, b) =>
        (m, ⟨.uniq, .hsMu, b, 0, n⟩)

/-! ## constructors driven by a scripted iterator (M3) -/

/-- behaviour of a user iterator: what successive `len()` calls answer, what successive
`size_hint()` calls answer (the last answer repeats), the items `next()` yields, and the index of
the `next()` call that panics, if any -/
structure IterScript where
  lens : List Nat
  hints : List (Nat × Option Nat)
  items : List Item
  panicAt : Option Nat
deriving Repr, Inhabited

inductive IterCtor
  | hsFromIter        -- Arc::from_header_and_iter(h, it)
  | thinFromIter      -- ThinArc::from_header_and_iter(h, it)
  | fromIter          -- Arc::<[T]>::from_iter(it)
  | uniqueFromIter    -- UniqueArc::<[T]>::from_iter(it)
deriving Repr, Inhabited, DecidableEq

/-- the iterator value while it is being consumed -/
structure IterSt where
  sc : IterScript
  lenCalls : Nat := 0
  hintCalls : Nat := 0
  nextCalls : Nat := 0
deriving Repr, Inhabited

def nthOrLast (l : List α) (i : Nat) (d : α) : α :=
  match l[i]? with
  | some x => x
  | none => l.getLast?.getD d

def IterSt.len (it : IterSt) : Nat × IterSt :=
  (nthOrLast it.sc.lens it.lenCalls it.sc.items.length, { it with lenCalls := it.lenCalls + 1 })
def IterSt.sizeHint (it : IterSt) : (Nat × Option Nat) × IterSt :=
  (nthOrLast it.sc.hints it.hintCalls (it.sc.items.length, some it.sc.items.length),
   { it with hintCalls := it.hintCalls + 1 })

inductive NextRes | yield (v : Item) | done | panic
deriving Repr, Inhabited

def IterSt.next (it : IterSt) : NextRes × IterSt :=
  let i := it.nextCalls
  let it' := { it with nextCalls := i + 1 }
  -- a panicking call yields nothing: the item it would have produced stays in the iterator
  if it.sc.panicAt = some i then (.panic, it)
  else match it.sc.items[i]? with
    | some v => (.yield v, it')
    | none => (.done, it')

/-- dropping the iterator value drops the items it has not yielded -/
def IterSt.dropRest (it : IterSt) : List Event := (it.sc.items.drop it.nextCalls).map fun v => Event.drop v.id

/-- outcome of a constructor that runs user code -/
inductive CtorRes
  | built (m : Mem) (h : HV)
  | panicked (m : Mem) (cls : String)
deriving Inhabited

/-- the write loop of `from_header_and_iter`: `for _ in 0..n { ptr::write(cur, items.next().expect(..)) }` -/
def fillLoop : Nat → IterSt → List (Option Item) → (Except String (List (Option Item))) × IterSt
  | 0, it, acc => (.ok acc, it)
  | n+1, it, acc =>
    match it.next with
    | (.yield v, it) => fillLoop n it (acc ++ [some v])
    | (.done, it) => (.error "over-reported", it)
    | (.panic, it) => (.error "scripted", it)

/-- `Arc::<HeaderSlice<H,[T]>>::from_header_and_iter(header, items)` with `items.len()` already
answered `n`: allocate for `n`, write the header, run the loop, check exhaustion.  On a panic after
the allocation the half-built block is leaked (never dropped, the header moved into it included) and
the iterator is dropped by unwinding.  When the layout computation for `n` overflows, nothing is
allocated and unwinding drops the iterator and then the header, both still owned by the frame. -/
def fromHeaderAndIterCore (m : Mem) (hdrLay : Layout) (hdr : Option Item) (recLen : Option Nat)
    (ty : Ty) (n : Nat) (it : IterSt) : CtorRes :=
  match allocLayoutHeaderSlice bits hdrLay trackedLay n with
  | none =>
      -- the `unwrap()` on the layout computation panics before anything is allocated: unwinding drops the
      -- iterator (its unyielded items) and then the header, both still owned by the constructor's frame
      .panicked (m.emit (it.dropRest ++ (hdr.toList.map fun h => Event.drop h.id))) "layout-overflow"
  | some lay =>
    let (m, b) := allocBlock m lay hdr recLen (List.replicate n none)
    match fillLoop n it [] with
    | (.error cls, it) =>
        -- panic inside the loop: block leaked as is; its written prefix is unknown to any destructor
        .panicked ((m.leak b).emit it.dropRest) cls
    | (.ok elems, it) =>
      let m := m.upd b fun k => { k with elems := elems }
      match it.next with
      | (.done, _) => .built m ⟨.arc, ty, b, 0, n⟩
      | (.yield v, it) =>
          -- `assert!(items.next().is_none())`: the extra item is dropped, then the panic
          .panicked ((m.leak b).emit ([Event.drop v.id] ++ it.dropRest)) "under-reported"
      | (.panic, it) => .panicked ((m.leak b).emit it.dropRest) "scripted"

/-- `iter.collect::<Vec<_>>()`: all items, or a panic (the partial Vec and the iterator are dropped) -/
def collectAll : Nat → IterSt → List Item → (Option (List Item)) × IterSt
  | 0, it, acc => (some acc, it)
  | fuel+1, it, acc =>
    match it.next with
    | (.yield v, it) => collectAll fuel it (acc ++ [v])
    | (.done, it) => (some acc, it)
    | (.panic, it) => (none, it)

def runIterCtor (m : Mem) (dbg : Bool) (which : IterCtor) (h : Option Item) (sc : IterScript) : CtorRes :=
  let it : IterSt := { sc := sc }
  match which with
  | .hsFromIter =>
      let (n, it) := it.len
      fromHeaderAndIterCore m trackedLay h none .hs n it
  | .thinFromIter =>
      -- `HeaderWithLength::new(header, items.len())`, then `Arc::from_header_and_iter`, then `into_thin`
      let (n1, it) := it.len
      let (n2, it) := it.len
      match fromHeaderAndIterCore m Ty.hwl.hdrLay h (some n1) .hwl n2 it with
      | .panicked m cls => .panicked m cls
      | .built m a =>
        match Arc.into_thin m a with
        | (m, some t) => .built m t
        | (m, none) => .panicked m "length-mismatch"
  | .fromIter | .uniqueFromIter =>
      let kind : Kind := if which = .fromIter then .arc else .uniq
      let (h1, it) := it.sizeHint
      if some h1.1 = h1.2 then
        -- `IteratorAsExactSizeIterator::new(iter)`: debug_assert on a fresh size_hint
        let (h2, it) := it.sizeHint
        if dbg && some h2.1 ≠ h2.2 then .panicked (m.emit it.dropRest) "size-hint" else
        -- `.len()`: another size_hint, debug_assert, take the lower bound
        let (h3, it) := it.sizeHint
        if dbg && some h3.1 ≠ h3.2 then .panicked (m.emit it.dropRest) "size-hint" else
        match fromHeaderAndIterCore m unitLayout none none .uslice h3.1 it with
        | .panicked m cls => .panicked m cls
        | .built m a => .built m { Arc.erase_header a with kind := kind }
      else
        match collectAll (sc.items.length + 1) it [] with
        | (none, it) =>
            -- the partially collected Vec is dropped (its items), then the iterator
            .panicked (m.emit (((sc.items.take it.nextCalls).map fun v => Event.drop v.id) ++ it.dropRest)) "scripted"
        | (some vs, _) =>
          match runCtor m (.fromVec vs) with
          | none => .panicked m "layout-overflow"
          | some (m, a) => .built m { a with kind := kind }

/-! ## conversions that only re-type / re-address the handle in a slot -/

inductive Conv
  | intoRaw | fromRaw | intoRawOffset | fromRawOffset
  | fromThin | thinIntoRaw | thinFromRaw
  | unionFirst | unionSecond
  | eraseHeader | addHeader | shareable | assumeInit | toDyn
deriving Repr, Inhabited, DecidableEq

def allWritten (m : Mem) (h : HV) : Bool :=
  match m.blocks[h.blk]? with
  | some k => k.elems.all Option.isSome
  | none => false

/-- result of a pure conversion, `none` = the op does not apply to this handle type -/
def runConv (m : Mem) (h : HV) : Conv → Option HV
  | .intoRaw =>
      if h.kind = .arc ∧ (h.ty = .sized ∨ h.ty = .sizedB ∨ h.ty = .slice ∨ h.ty = .dyn) then some (Arc.into_raw m h) else none
  | .fromRaw => if h.kind = .raw then some (Arc.from_raw m h) else none
  | .intoRawOffset => if h.kind = .arc ∧ h.ty = .sized then some (Arc.into_raw_offset m h) else none
  | .fromRawOffset => if h.kind = .offset then some (Arc.from_raw_offset m h) else none
  | .fromThin => if h.kind = .thin then some (ThinArc.thick m h) else none
  | .thinIntoRaw => if h.kind = .thin then some (ThinArc.into_raw h) else none
  | .thinFromRaw => if h.kind = .rawThin then some (ThinArc.from_raw h) else none
  | .unionFirst => if h.kind = .arc ∧ h.ty = .sized then some (ArcUnion.from_first m h) else none
  | .unionSecond => if h.kind = .arc ∧ h.ty = .sizedB then some (ArcUnion.from_second m h) else none
  | .eraseHeader => if h.kind = .arc ∧ h.ty = .uslice then some (Arc.erase_header h) else none
  | .addHeader => if h.kind = .arc ∧ h.ty = .slice then some (Arc.add_unit_header h) else none
  | .shareable => if h.kind = .uniq ∧ h.ty ≠ .hsMu then some (UniqueArc.shareable h) else none
  | .assumeInit =>
      -- unsafe contract: every slot written (the generator and the harness both enforce it)
      if (h.kind = .arc ∨ h.kind = .uniq) ∧ allWritten m h then
        match h.ty with
        | .mu => some { h with ty := .sized }
        | .muSlice => some { h with ty := .slice }
        | .hsMu => if h.kind = .uniq then some { h with ty := .hs } else none
        | _ => none
      else none
  | .toDyn =>
      -- `Arc::into_raw`, `as *const dyn Tr`, `Arc::from_raw`
      if h.kind = .arc ∧ h.ty = .sized then some (Arc.from_raw m { Arc.into_raw m h with ty := .dyn })
      -- the unsizing coercion `UniqueArc<T>` → `UniqueArc<dyn Tr>`: same pointer, a vtable is attached
      else if h.kind = .uniq ∧ h.ty = .sized then some { h with ty := .dyn }
      else none

/-! ## reading and writing the payload -/

def showItem (v : Option Item) : String :=
  match v with
  | some it => s!"{it.id}.{it.val}"
  | none => "?"

/-- what `Deref` shows through a view (`-` for views whose elements are `MaybeUninit`) -/
def digest (m : Mem) (h : HV) : String :=
  match m.blocks[h.blk]? with
  | none => "!"
  | some k =>
    let hd := match k.hdr with | some it => s!"h{it.id}.{it.val}" | none => ""
    if h.ty.elemsInit then
      hd ++ "[" ++ ",".intercalate ((k.elems.take (viewLen m h)).map showItem) ++ "]"
    else hd ++ "-"

/-- set the `val` field of the designated target of a write through `&mut`: the header if the
payload has one, otherwise the first element -/
def writeVal (m : Mem) (b : Nat) (v : Nat) : Mem :=
  m.upd b fun k =>
    match k.hdr with
    | some it => { k with hdr := some { it with val := v } }
    | none =>
      match k.elems with
      | some it :: r => { k with elems := some { it with val := v } :: r }
      | _ => k

/-! ## callbacks -/

inductive CbApi
  | rawOffset        -- Arc::with_raw_offset_arc        : callback gets `&OffsetArc<T>`
  | offsetWithArc    -- OffsetArc::with_arc             : `&Arc<T>`
  | borrowWithArc    -- ArcBorrow::with_arc (via borrow_arc / ArcUnion::borrow) : `&Arc<T>`
  | thinWithArc      -- ThinArc::with_arc               : `&Arc<HeaderSlice<HeaderWithLength<H>,[T]>>`
  | thinWithArcMut   -- ThinArc::with_arc_mut           : `&mut Arc<HeaderSliceWithLengthProtected<H,T>>`
deriving Repr, Inhabited, DecidableEq

inductive CbAct
  | cnt                   -- read the count through every accessor of the lent handle
  | read                  -- read the value through the lent handle
  | cloneTo (k : Nat)     -- clone the lent handle into slot `k`
  | cloneArcTo (k : Nat)  -- (rawOffset only) `o.clone_arc()` into slot `k`
  | getMutWrite (v : Nat) -- (thinWithArcMut) `Arc::get_mut(arc)`, write `v` if granted
  | replaceWith (k : Nat) -- (thinWithArcMut) `*arc = Arc::protected_from_thin(<thin taken from slot k>)`
  | swapWith (k : Nat)    -- (thinWithArcMut) `mem::swap(arc, &mut spare)`, `spare` made from / returned to slot `k`
  | panic
deriving Repr, Inhabited

/-- the transient handle lent to the callback (never dropped: `ManuallyDrop`) -/
def transientOf (m : Mem) (api : CbApi) (h : HV) : Option HV :=
  match api with
  | .rawOffset => if h.kind = .arc ∧ h.ty = .sized then some (Arc.into_raw_offset m h) else none
  | .offsetWithArc => if h.kind = .offset then some (OffsetArc.transient m h) else none
  | .borrowWithArc =>
      if h.kind = .arc ∧ (h.ty = .sized ∨ h.ty = .sizedB) then some (Arc.from_raw m (ArcBorrow.of_arc m h))
      else if h.kind = .unionA ∨ h.kind = .unionB then some (Arc.from_raw m (ArcUnion.borrow h))
      else none
  | .thinWithArc | .thinWithArcMut => if h.kind = .thin then some (ThinArc.thick m h) else none

/-- interpreter of a callback script.  `src` is the slot that lends; `t` the transient handle.
For `with_arc_mut` the drop guard writes the transient's pointer back into the ThinArc when the
callback returns *or unwinds*; nothing can observe the ThinArc in between (it is mutably
borrowed), so the write-back is modelled at the `replaceWith` / `swapWith` itself. -/
def runCb (api : CbApi) (src : Nat) : List CbAct → State → HV → String → State × Out
  | [], s, _, acc => (s, ok acc)
  | a :: rest, s, t, acc =>
    match a with
    | .cnt => runCb api src rest s t (acc ++ s!"cnt={loadCount s.mem t.blk};")
    | .read => runCb api src rest s t (acc ++ s!"val={digest s.mem t};")
    | .panic => (s, panicked "scripted" acc)
    | .cloneTo k =>
        match lookup s k with
        | some _ => runCb api src rest s t (acc ++ "skip;")
        | none =>
          match cloneHandle s.mem t with
          | none => runCb api src rest s t (acc ++ "skip;")
          | some (m, c) =>
            let c := if api = .thinWithArcMut then ThinArc.of_arc c else c
            runCb api src rest (s.put m k c) t (acc ++ "cloned;")
    | .cloneArcTo k =>
        match lookup s k with
        | some _ => runCb api src rest s t (acc ++ "skip;")
        | none =>
          if api = .rawOffset then
            let (m, c) := OffsetArc.clone_arc s.mem t
            runCb api src rest (s.put m k c) t (acc ++ "cloned;")
          else runCb api src rest s t (acc ++ "skip;")
    | .getMutWrite v =>
        if api = .thinWithArcMut then
          if Arc.is_unique s.mem t then
            runCb api src rest ⟨writeVal s.mem t.blk v, s.slots⟩ t (acc ++ "mut=some;")
          else runCb api src rest s t (acc ++ "mut=none;")
        else runCb api src rest s t (acc ++ "skip;")
    | .replaceWith k =>
        if api = .thinWithArcMut ∧ k ≠ src then
          match lookup s k with
          | some h2 =>
            if h2.kind = .thin then
              -- take the ThinArc out of slot k, `protected_from_thin`, assign: the old transient
              -- value is dropped in place (one decrement on the old block)
              let newT := ThinArc.thick s.mem h2
              let m := Arc.drop s.mem t
              let s := (s.del m k).set m src (ThinArc.of_arc newT)
              runCb api src rest s newT (acc ++ "replaced;")
            else runCb api src rest s t (acc ++ "skip;")
          | none => runCb api src rest s t (acc ++ "skip;")
        else runCb api src rest s t (acc ++ "skip;")
    | .swapWith k =>
        if api = .thinWithArcMut ∧ k ≠ src then
          match lookup s k with
          | some h2 =>
            if h2.kind = .thin then
              -- `spare = Arc::protected_from_thin(<thin taken out of slot k>)`, `mem::swap(arc, &mut spare)`,
              -- then `protected_into_thin(spare)` goes back into slot `k`: no count changes, nothing is
              -- dropped; the write-back guard leaves the lending ThinArc pointing at `k`'s old block
              let newT := ThinArc.thick s.mem h2
              let s := (s.set s.mem k (ThinArc.of_arc t)).set s.mem src (ThinArc.of_arc newT)
              runCb api src rest s newT (acc ++ "swapped;")
            else runCb api src rest s t (acc ++ "skip;")
          | none => runCb api src rest s t (acc ++ "skip;")
        else runCb api src rest s t (acc ++ "skip;")

/-! ## the op language -/

inductive Op
  | create (dst : Nat) (c : Ctor)
  | iterCtor (dst : Nat) (which : IterCtor) (h : Option Item) (sc : IterScript)
  | clone (dst src : Nat)
  | drop (src : Nat)
  | conv (src : Nat) (c : Conv)
  | intoThin (src : Nat)
  | cloneArc (dst src : Nat)
  | isUnique (src : Nat)
  | getMut (src : Nat) (v : Nat)
  | getUnique (src : Nat) (v : Nat)
  | makeMut (src : Nat) (v : Nat) (clonePanics : Bool)
  | makeUnique (src : Nat) (v : Nat) (clonePanics : Bool)
  | tryUnwrap (src : Nat)
  | unwrapOrClone (src : Nat) (clonePanics : Bool)
  | intoInner (src : Nat)
  | tryUnique (src : Nat)
  | uniqWrite (src : Nat) (v : Nat)
  | writeSlot (src : Nat) (i : Nat) (v : Item)
  | withCb (src : Nat) (api : CbApi) (script : List CbAct)
  | dropAll
deriving Repr, Inhabited

/-- `T::clone(&**this)` on the sized payload of block `b`: a new identity, logged -/
def cloneValue (m : Mem) (b : Nat) : Mem × Option Item :=
  match (m.blocks[b]?.bind fun k => (k.elems.head?).join) with
  | some it =>
    let nid := m.nextClone
    ({ m with nextClone := nid + 1, log := m.log ++ [.clone it.id nid] }, some ⟨nid, it.val⟩)
  | none => (m, none)

/-- `Arc::make_mut(this)`: `if !this.is_unique() { *this = Arc::new(T::clone(this)) }`; returns the
possibly redirected handle, or `none` if `Clone` panicked (state untouched) -/
def Arc.make_mut (m : Mem) (a : HV) (clonePanics : Bool) : Mem × Option HV :=
  if Arc.is_unique m a then (m, some a)
  else if clonePanics then (m, none)
  else
    let (m, v) := cloneValue m a.blk
    let (m, fresh) := Arc.new m a.ty v
    let m := Arc.drop m a             -- the assignment drops the previous value of `*this`
    (m, some fresh)

def insertKey (k : Nat) : List Nat → List Nat
  | [] => [k]
  | x :: r => if k ≤ x then k :: x :: r else x :: insertKey k r
/-- the occupied slot numbers in increasing order (the order in which `dropAll` releases) -/
def sortedKeys (l : List (Nat × HV)) : List Nat := (l.map (·.1)).foldr insertKey []

/-- release whatever is in slot `i`: raw pointers are first taken back (`from_raw`), then the
handle is dropped -/
def releaseSlot (s : State) (i : Nat) : State :=
  match lookup s i with
  | some h => s.del (Arc.drop s.mem (asArc s.mem h)) i
  | none => s

def dropAllFrom (keys : List Nat) (s : State) : State := keys.foldl releaseSlot s

def step (s : State) : Op → State × Out
  | .create dst c =>
    match lookup s dst with
    | some _ => (s, badOp)
    | none =>
      match runCtor s.mem c with
      | none => (s, panicked "layout-overflow")
      | some (m, h) => (s.put m dst h, ok)
  | .iterCtor dst which h sc =>
    match lookup s dst with
    | some _ => (s, badOp)
    | none =>
      match runIterCtor s.mem true which h sc with
      | .built m hv => (s.put m dst hv, ok)
      | .panicked m cls => (⟨m, s.slots⟩, panicked cls)
  | .clone dst src =>
    match lookup s dst, lookup s src with
    | none, some h =>
      match cloneHandle s.mem h with
      | some (m, c) => (s.put m dst c, ok)
      | none => (s, badOp)
    | _, _ => (s, badOp)
  | .drop src =>
    match lookup s src with
    | some h =>
      match dropHandle s.mem h with
      | some m => (s.del m src, ok)
      | none => (s, badOp)
    | none => (s, badOp)
  | .conv src c =>
    match lookup s src with
    | some h =>
      match runConv s.mem h c with
      | some h' => (s.set s.mem src h', ok)
      | none => (s, badOp)
    | none => (s, badOp)
  | .intoThin src =>
    match lookup s src with
    | some h =>
      if h.kind = .arc ∧ h.ty = .hwl then
        match Arc.into_thin s.mem h with
        | (m, some t) => (s.set m src t, ok)
        | (m, none) => (s.del m src, panicked "length-mismatch")
      else (s, badOp)
    | none => (s, badOp)
  | .cloneArc dst src =>
    match lookup s dst, lookup s src with
    | none, some h =>
      let r : Option (Mem × HV) :=
        if h.kind = .arc ∧ (h.ty = .sized ∨ h.ty = .sizedB) then some (ArcBorrow.clone_arc s.mem (ArcBorrow.of_arc s.mem h))
        else if h.kind = .offset then some (OffsetArc.clone_arc s.mem h)
        else if h.kind = .unionA ∨ h.kind = .unionB then some (ArcBorrow.clone_arc s.mem (ArcUnion.borrow h))
        else none
      match r with
      | some (m, a) => (s.put m dst a, ok)
      | none => (s, badOp)
    | _, _ => (s, badOp)
  | .isUnique src =>
    match lookup s src with
    | some h => if h.kind = .arc then (s, ok s!"unique={Arc.is_unique s.mem h}") else (s, badOp)
    | none => (s, badOp)
  | .getMut src v =>
    match lookup s src with
    | some h =>
      if h.kind = .arc ∧ h.ty.elemsInit then
        if Arc.is_unique s.mem h then (⟨writeVal s.mem h.blk v, s.slots⟩, ok "some") else (s, ok "none")
      else (s, badOp)
    | none => (s, badOp)
  | .getUnique src v =>
    match lookup s src with
    | some h =>
      if h.kind = .arc ∧ h.ty.elemsInit then
        match Arc.try_unique s.mem h with     -- `try_as_unique(this).ok()`
        | .ok _ => (⟨writeVal s.mem h.blk v, s.slots⟩, ok "some")
        | .error _ => (s, ok "none")
      else (s, badOp)
    | none => (s, badOp)
  | .makeMut src v cp =>
    match lookup s src with
    | some h =>
      if h.kind = .arc ∧ h.ty = .sized then
        match Arc.make_mut s.mem h cp with
        | (m, some h') => (⟨writeVal m h'.blk v, (s.set m src h').slots⟩, ok)
        | (_, none) => (s, panicked "scripted")
      else if h.kind = .offset then
        -- `OffsetArc::make_mut`: read self, `from_raw_offset`, ManuallyDrop, `Arc::make_mut`, write back
        match Arc.make_mut s.mem (Arc.from_raw_offset s.mem h) cp with
        | (m, some a') => (⟨writeVal m a'.blk v, (s.set m src (Arc.into_raw_offset m a')).slots⟩, ok)
        | (_, none) => (s, panicked "scripted")
      else (s, badOp)
    | none => (s, badOp)
  | .makeUnique src v cp =>
    match lookup s src with
    | some h =>
      if h.kind = .arc ∧ h.ty = .sized then
        match Arc.make_mut s.mem h cp with
        | (m, some h') => (⟨writeVal m h'.blk v, (s.set m src h').slots⟩, ok)
        | (_, none) => (s, panicked "scripted")
      else (s, badOp)
    | none => (s, badOp)
  | .tryUnwrap src =>
    match lookup s src with
    | some h =>
      if h.kind = .arc ∧ h.ty = .sized then
        match Arc.try_unwrap s.mem h with
        | (m, .ok v) => (s.del m src, ok s!"ok={showItem v}")
        | (_, .error _) => (s, ok "err")
      else (s, badOp)
    | none => (s, badOp)
  | .unwrapOrClone src cp =>
    match lookup s src with
    | some h =>
      if h.kind = .arc ∧ h.ty = .sized then
        match Arc.try_unwrap s.mem h with
        | (m, .ok v) => (s.del m src, ok s!"val={showItem v}")
        | (m, .error a) =>
          -- `|this| T::clone(&this)`: clone, then `this` is dropped at the end of the closure —
          -- also when `Clone` panics (the closure's argument is dropped by unwinding)
          if cp then (s.del (Arc.drop m a) src, panicked "scripted")
          else
            let (m, v) := cloneValue m a.blk
            (s.del (Arc.drop m a) src, ok s!"val={showItem v}")
      else (s, badOp)
    | none => (s, badOp)
  | .intoInner src =>
    match lookup s src with
    | some h =>
      if h.kind = .uniq ∧ h.ty = .sized then
        let (m, v) := UniqueArc.into_inner s.mem h
        (s.del m src, ok s!"val={showItem v}")
      else (s, badOp)
    | none => (s, badOp)
  | .tryUnique src =>
    match lookup s src with
    | some h =>
      if h.kind = .arc ∧ (h.ty = .sized ∨ h.ty = .slice ∨ h.ty = .hs ∨ h.ty = .hwl ∨ h.ty = .mu ∨ h.ty = .muSlice) then
        match Arc.try_unique s.mem h with
        | .ok u => (s.set s.mem src u, ok "ok")
        | .error _ => (s, ok "err")
      else (s, badOp)
    | none => (s, badOp)
  | .uniqWrite src v =>
    match lookup s src with
    | some h => if h.kind = .uniq ∧ h.ty.elemsInit then (⟨writeVal s.mem h.blk v, s.slots⟩, ok) else (s, badOp)
    | none => (s, badOp)
  | .writeSlot src i v =>
    match lookup s src with
    | some h =>
      if (h.ty = .mu ∨ h.ty = .muSlice ∨ h.ty = .hsMu) ∧ i < viewLen s.mem h ∧ (h.kind = .uniq ∨ (h.kind = .arc ∧ h.ty ≠ .hsMu)) then
        -- UniqueArc: DerefMut / `write`; Arc: the deprecated `write` / `as_mut_slice`, which go
        -- through `must_be_unique` and panic when the handle is shared
        if h.kind = .arc ∧ !Arc.is_unique s.mem h then
          -- `a.write(v)`: the argument exists already and is dropped by unwinding;
          -- `a.as_mut_slice()[i].write(v)`: the panic comes before `v` is even constructed
          (⟨if h.ty = .mu then s.mem.emit [.drop v.id] else s.mem, s.slots⟩, panicked "not-unique")
        else (⟨s.mem.upd h.blk fun k => { k with elems := k.elems.set i (some v) }, s.slots⟩, ok)
      else (s, badOp)
    | none => (s, badOp)
  | .withCb src api script =>
    match lookup s src with
    | some h =>
      match transientOf s.mem api h with
      | some t => runCb api src script s t ""
      | none => (s, badOp)
    | none => (s, badOp)
  | .dropAll => (dropAllFrom (sortedKeys s.slots) s, ok)

/-! ## comparison, hashing and formatting through handles

`PartialEq` / `PartialOrd` / `Ord` / `Hash` / `Debug` of every handle type take `&self`: they borrow
(ThinArc: a transient `ManuallyDrop<Arc<..>>` via `with_arc`; ArcUnion: `borrow()`; OffsetArc: `Deref`)
and forward to the payload's impl.  In the model they are therefore **not a `step`** at all: they
produce an answer from the memory and leave the state as it is, also when the payload's impl panics.
The correspondence (`cmp a b` lines) checks exactly that on the real code: identical state line
afterwards, no events, the answers below. -/

/-- handle types whose comparison the correspondence exercises -/
def cmpApplies (h : HV) : Bool :=
  match h.kind, h.ty with
  | .arc, .sized | .arc, .sizedB | .arc, .slice | .arc, .hs | .arc, .hwl => true
  | .thin, _ | .offset, _ | .unionA, _ | .unionB, _ => true
  | _, _ => false

/-- only `Arc<T>` and `ThinArc` offer an ordering -/
def cmpOrdered (h : HV) : Bool := h.kind = .arc || h.kind = .thin

/-- what a comparison sees through `h`, in the order the derived impls compare: header, the slice
elements, and last the recorded length (`HeaderWithLength`; equal to the slice length on every handle
built by the safe constructors) -/
def cmpKey (m : Mem) (h : HV) : List Nat × List Nat × Option Nat :=
  match m.blocks[h.blk]? with
  | none => ([], [], none)
  | some k => ((k.hdr.toList.map (·.val)), ((k.elems.take (viewLen m h)).filterMap fun e => e.map (·.val)),
               if h.ty = .hwl then k.recLen else none)

def lexCmp : List Nat → List Nat → Ordering
  | [], [] => .eq
  | [], _ :: _ => .lt
  | _ :: _, [] => .gt
  | a :: as, b :: bs => if a < b then .lt else if b < a then .gt else lexCmp as bs

def keyCmp (x y : List Nat × List Nat × Option Nat) : Ordering :=
  match lexCmp x.1 y.1 with
  | .eq => match lexCmp x.2.1 y.2.1 with
    | .eq => compare (x.2.2.getD 0) (y.2.2.getD 0)
    | o => o
  | o => o

def showOrd : Ordering → String | .lt => "lt" | .eq => "eq" | .gt => "gt"

/-- `a == b`, `a.partial_cmp(&b)` for the handles in slots `a`, `b` (same handle type; the two
variants of a union compare unequal) -/
def cmpAnswer (s : State) (a b : Nat) : Out :=
  match lookup s a, lookup s b with
  | some x, some y =>
    let union (k : Kind) := k = .unionA || k = .unionB
    if cmpApplies x && ((x.kind = y.kind && x.ty = y.ty) || (union x.kind && union y.kind)) then
      let eq := x.kind = y.kind && cmpKey s.mem x == cmpKey s.mem y
      let pc := if cmpOrdered x then showOrd (keyCmp (cmpKey s.mem x) (cmpKey s.mem y)) else "-"
      ok s!"eq={eq};pc={pc};cons=true"
    else badOp
  | _, _ => badOp

def run (ops : List Op) : State := ops.foldl (fun s o => (step s o).1) State.init

end M1
