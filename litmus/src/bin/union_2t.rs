//! C02: the clone/read/drop scenario through `ArcUnion`, first and second variant.
use litmus::*;

fn main() {
    let mut t = Tally::new();
    for r in 0..rounds(3) {
        clone_read_drop::<UnionFirst>(&mut t, 2, 40 + r as u64);
        clone_read_drop::<UnionSecond>(&mut t, 2, 45 + r as u64);
    }
    t.finish();
}
