import TriompheModel.Proofs.Overflow
import TriompheModel.Generated.Consts
import TriompheModel.Generated.Atomics
/-!
# C16 — reference-count overflow terminates the process instead of wrapping

Model: `Model/Overflow.lean` (M6): `cloneWord G w` is what `Arc::clone` does to the count word,
with the guard's operator, constant and action read from the source on this run
(`Generated.Consts`, facts `genStd` / `genNoStd` for the two configurations).

* `obl_*` — proof obligations on the regenerated facts, by `decide` (finite tables).  If the source
  changes so that one is false, this file stops compiling.
* `C16_guard*` — ∀ `w : BitVec 64` (no bound) and ∀ word width: the clone aborts (process
  terminating, not catchable) iff the old count exceeds `isize::MAX`, else it returns `w + 1`
  without wrap.
* `C16_no_wrap_seq` — ∀ finite sequences of clone / drop / forget from count 1.
* `C16_no_wrap_inflight` — ∀ interleavings with up to `n` clones between their `fetch_add` and their
  guard check.
* `C16_catchable_panic_wraps` — necessity witness: with a *catchable* panic as the action the same
  machine reaches "count = 0, block freed, handles still live" (shown on a 3-bit word so that the
  history is short enough to evaluate).
-/
open Facts Overflow
namespace C16

/-! ## obligations on the facts regenerated from `/repo/src` -/

/-- `const MAX_REFCOUNT: usize = isize::MAX as usize` -/
theorem obl_max_refcount : Generated.maxRefcount = .isizeMax := by decide
/-- the guard is `>` against the constant `MAX_REFCOUNT` … -/
theorem obl_guard_gt_max : Generated.cloneGuard = ⟨.gt, none⟩ := by decide
/-- … applied to the value `fetch_add` returned (the old count) -/
theorem obl_guard_on_old : Generated.cloneGuardOnOldVsMax = true := by decide
/-- when it fires, `abort()` is called (not `panic!`, not nothing) -/
theorem obl_action_abort : Generated.cloneGuardAction = .callsAbort := by decide
/-- `abort()` terminates the process in both configurations (a single, catchable panic is rejected) -/
theorem obl_abort_terminates :
    Generated.abortStd.terminates = true ∧ Generated.abortNoStd.terminates = true := by decide
/-- every other handle kind's clone path touches no atomic itself and reaches `Arc::clone` -/
def funnelsOk : Bool := Generated.funnels.all (fun f => f.ownAtomics == 0 && f.reaches)
theorem obl_funnels : funnelsOk = true := by decide
/-- … and the table does cover every clone entry point that is not `Arc::clone` itself -/
def cloneFunnelsPresent : Bool :=
  ["ThinArc::clone", "OffsetArc::clone", "OffsetArc::clone_arc", "ArcBorrow::clone_arc", "ArcUnion::clone"].all
    (fun n => Generated.funnels.any (fun f => f.name == n))
theorem obl_clone_funnels_present : cloneFunnelsPresent = true := by decide
/-- census: exactly one non-debug `fetch_add` in the crate, and it is the one in `Arc::clone`;
no unattributed write / RMW site -/
def censusOk : Bool :=
  (Generated.sites.filter (fun s => s.kind == .fetchAdd && !s.debugOnly)).map (·.fn_) == ["Arc::clone"] &&
  Generated.unknownWrites.isEmpty &&
  Generated.sites.all (fun s => s.kind != .otherRmw && s.kind != .store || s.debugOnly)
theorem obl_census : censusOk = true := by decide

theorem good_std : Good genStd = true := by decide
theorem good_nostd : Good genNoStd = true := by decide

/-- all obligations on the regenerated facts in one statement (DESIGN App. C: `C16_generated_consts`) -/
theorem C16_generated_consts :
    Good genStd = true ∧ Good genNoStd = true ∧ funnelsOk = true ∧ cloneFunnelsPresent = true ∧
    censusOk = true :=
  ⟨good_std, good_nostd, obl_funnels, obl_clone_funnels_present, obl_census⟩

/-! ## the guard, for every word -/

/-- **C16 (guard), parametric in the facts.**  For every 64-bit count word: the clone ends in a
process-terminating abort iff the old count is above `isize::MAX`; otherwise it returns the word
plus one and the addition did not wrap. -/
theorem guard_of_good {G : GuardFacts} (hG : Good G = true) (w : BitVec 64) :
    (terminated (cloneWord G w) = true ↔ w.toNat > 2 ^ 63 - 1) ∧
    (w.toNat ≤ 2 ^ 63 - 1 → cloneWord G w = .ok (w + 1) ∧ (w + 1).toNat = w.toNat + 1) := by
  constructor
  · exact guardCheck_terminated_iff hG 64 w.toNat (w + 1)
  · intro hle
    refine ⟨guardCheck_ok hG 64 w.toNat (w + 1) hle, ?_⟩
    rw [BitVec.toNat_add]
    change (w.toNat + 1) % 2 ^ 64 = w.toNat + 1
    exact Nat.mod_eq_of_lt (by omega)

/-- **C16_guard** at the facts of the current source, std configuration. -/
theorem C16_guard (w : BitVec 64) :
    (terminated (cloneWord genStd w) = true ↔ w.toNat > 2 ^ 63 - 1) ∧
    (w.toNat ≤ 2 ^ 63 - 1 → cloneWord genStd w = .ok (w + 1) ∧ (w + 1).toNat = w.toNat + 1) :=
  guard_of_good good_std w

/-- the same without `std` (abort = double panic) -/
theorem C16_guard_nostd (w : BitVec 64) :
    (terminated (cloneWord genNoStd w) = true ↔ w.toNat > 2 ^ 63 - 1) ∧
    (w.toNat ≤ 2 ^ 63 - 1 → cloneWord genNoStd w = .ok (w + 1) ∧ (w + 1).toNat = w.toNat + 1) :=
  guard_of_good good_nostd w

/-- a clone never returns normally (`ok`) from a count above `isize::MAX`, and never ends in a
catchable panic or an unclassified state: the only outcomes are `ok (w+1)` and a terminating abort -/
theorem C16_abort_not_catchable (w : BitVec 64) :
    ∀ G ∈ [genStd, genNoStd],
      cloneWord G w = .ok (w + 1) ∧ w.toNat ≤ 2 ^ 63 - 1 ∨
      ∃ a, cloneWord G w = .error a ∧ a.terminates = true ∧ w.toNat > 2 ^ 63 - 1 := by
  intro G hG
  have hg : Good G = true := by
    simp only [List.mem_cons, List.mem_nil_iff, or_false] at hG
    rcases hG with rfl | rfl
    · exact good_std
    · exact good_nostd
  by_cases hle : w.toNat ≤ 2 ^ 63 - 1
  · exact Or.inl ⟨guardCheck_ok hg 64 w.toNat (w + 1) hle, hle⟩
  · obtain ⟨a, ha, hta⟩ := guardCheck_abort hg 64 w.toNat (w + 1) (by omega)
    exact Or.inr ⟨a, ha, hta, by omega⟩

/-- **C16_guard for every word width** (`bits ≥ 1`; 16/32/64-bit targets): arithmetic mod `2^bits`. -/
theorem C16_guard_width (bits : Nat) (hb : 1 ≤ bits) (w : Nat) (hw : w < 2 ^ bits) :
    ∀ G ∈ [genStd, genNoStd],
      (terminated (cloneNat G bits w) = true ↔ w > 2 ^ (bits - 1) - 1) ∧
      (w ≤ 2 ^ (bits - 1) - 1 → cloneNat G bits w = .ok (w + 1) ∧ w + 1 < 2 ^ bits) := by
  intro G hG
  have hg : Good G = true := by
    simp only [List.mem_cons, List.mem_nil_iff, or_false] at hG
    rcases hG with rfl | rfl
    · exact good_std
    · exact good_nostd
  have hpow : 2 ^ bits = 2 * 2 ^ (bits - 1) := by
    obtain ⟨k, rfl⟩ : ∃ k, bits = k + 1 := ⟨bits - 1, by omega⟩
    have : k + 1 - 1 = k := by omega
    rw [this, Nat.pow_succ]; omega
  have hpos : 0 < 2 ^ (bits - 1) := Nat.two_pow_pos _
  refine ⟨guardCheck_terminated_iff hg bits w _, fun hle => ?_⟩
  have hs : w + 1 < 2 ^ bits := by omega
  exact ⟨by unfold cloneNat; rw [guardCheck_ok hg _ _ _ hle, fetchAdd_small hs], hs⟩

/-- the 64-bit word model is the `bits = 64` instance of the parametric one -/
theorem C16_word_is_width_64 (G : GuardFacts) (w : BitVec 64) :
    (match cloneWord G w with | .ok v => Except.ok v.toNat | .error a => Except.error a)
      = cloneNat G 64 w.toNat :=
  cloneWord_toNat G w

/-! ## histories -/

/-- **C16_no_wrap_seq.**  For every finite sequence of clone / drop / forget starting from a fresh
allocation (count 1, one handle), on every word width ≥ 2 bits, in both configurations: as long as
the process has not been aborted, the count word equals the number of live plus forgotten handles
(it never wrapped), it never exceeds `MAX_REFCOUNT + 1 = 2^(bits-1)`, it is not 0 and the block has
not been freed while a live or forgotten handle exists.  If the process was aborted, no handle was
produced by the aborting clone (handles ≤ `MAX_REFCOUNT + 1`, word = handles + 1). -/
theorem C16_no_wrap_seq (bits : Nat) (hb : 2 ≤ bits) (ops : List Op) :
    ∀ G ∈ [genStd, genNoStd],
      let s := run G bits ops
      (s.aborted = false →
        s.word = s.live + s.forgotten ∧ s.word ≤ 2 ^ (bits - 1) ∧ s.word < 2 ^ bits ∧
        (s.live + s.forgotten > 0 → s.word ≠ 0 ∧ s.freed = false)) ∧
      (s.aborted = true → s.word = s.live + s.forgotten + 1 ∧ s.live + s.forgotten ≤ 2 ^ (bits - 1)) := by
  intro G hG
  have hg : Good G = true := by
    simp only [List.mem_cons, List.mem_nil_iff, or_false] at hG
    rcases hG with rfl | rfl
    · exact good_std
    · exact good_nostd
  obtain ⟨hp, hM⟩ := pow_facts hb
  have hi : Inv bits (run G bits ops) := inv_foldl hg hb ops St.init (inv_init bits)
  dsimp only
  generalize run G bits ops = s at hi ⊢
  obtain ⟨hw, hle, hfr⟩ := hi
  refine ⟨fun hab => ?_, fun hab => ?_⟩
  · simp only [hab, Bool.false_eq_true, if_false, Nat.add_zero] at hw
    refine ⟨hw, by omega, by omega, fun hpos => ⟨by omega, ?_⟩⟩
    cases hf : s.freed with
    | false => rfl
    | true => have := hfr.mp hf; omega
  · simp only [hab, if_true] at hw
    exact ⟨hw, hle⟩

/-- **C16_no_wrap_inflight.**  With up to `n` clones between their `fetch_add` and their guard check
(concurrent threads), for every interleaving of fetch_add / check / drop / forget steps: while the
process has not aborted, the word is exactly live + forgotten + in-flight, hence
`≤ MAX_REFCOUNT + 1 + n`, and for `n ≤ 2^(bits-1) - 1` it cannot have wrapped (`< 2^bits`) and is
not 0 while any handle or in-flight clone exists. -/
theorem C16_no_wrap_inflight (bits : Nat) (hb : 2 ≤ bits) (n : Nat) (hn : n ≤ 2 ^ (bits - 1) - 1)
    (ops : List COp) :
    ∀ G ∈ [genStd, genNoStd],
      let s := crun G bits n ops
      s.aborted = false →
        s.word = s.live + s.forgotten + s.pending.length ∧
        s.live + s.forgotten ≤ 2 ^ (bits - 1) ∧
        s.word ≤ 2 ^ (bits - 1) + n ∧ s.word < 2 ^ bits ∧
        (s.live + s.forgotten + s.pending.length > 0 → s.word ≠ 0) := by
  intro G hG
  have hg : Good G = true := by
    simp only [List.mem_cons, List.mem_nil_iff, or_false] at hG
    rcases hG with rfl | rfl
    · exact good_std
    · exact good_nostd
  obtain ⟨hp, hM⟩ := pow_facts hb
  have hi : CInv bits n (crun G bits n ops) := cinv_foldl hg hb hn ops CSt.init (cinv_init bits n)
  dsimp only
  generalize crun G bits n ops = s at hi ⊢
  intro hab
  obtain ⟨hw, hle, hlen⟩ := hi hab
  refine ⟨hw, by omega, ?_, ?_, fun h => by omega⟩
  · have : s.live + s.forgotten ≤ 2 ^ (bits - 1) := by omega
    omega
  · have : s.live + s.forgotten ≤ 2 ^ (bits - 1) := by omega
    omega

/-! ## non-vacuity and necessity -/

-- the ten start counts of the property, evaluated in the model at the current facts
example : cloneWord genStd 1 = .ok 2 := by decide
example : cloneWord genStd (BitVec.ofNat 64 (2 ^ 63 - 1)) = .ok (BitVec.ofNat 64 (2 ^ 63)) := by decide
example : cloneWord genStd (BitVec.ofNat 64 (2 ^ 63)) = .error .processAbort := by decide
example : cloneWord genNoStd (BitVec.ofNat 64 (2 ^ 63)) = .error .doublePanic := by decide
example : cloneWord genStd (BitVec.ofNat 64 (2 ^ 64 - 1)) = .error .processAbort := by decide
example : cloneNat genStd 32 (2 ^ 31 - 1) = .ok (2 ^ 31) := by decide
example : cloneNat genStd 32 (2 ^ 31) = .error .processAbort := by decide
example : cloneNat genNoStd 16 (2 ^ 15) = .error .doublePanic := by decide

-- a history on a 3-bit word (MAX_REFCOUNT = 3) that runs into the guard: 3 clones succeed (word 4),
-- the 4th aborts; the hypotheses of `C16_no_wrap_seq` are met (bits = 3 ≥ 2) and both branches of
-- its conclusion are inhabited
example : (run genStd 3 [.clone, .forget, .clone, .clone]).word = 4 ∧
          (run genStd 3 [.clone, .forget, .clone, .clone]).aborted = false := by decide
example : (run genStd 3 [.clone, .forget, .clone, .clone, .clone]).aborted = true ∧
          (run genStd 3 [.clone, .forget, .clone, .clone, .clone]).word = 5 ∧
          (run genStd 3 [.clone, .forget, .clone, .clone, .clone, .drop, .clone]).live = 3 := by decide
-- a clone / drop history that frees the block exactly at the last release
example : (run genStd 64 [.clone, .drop, .drop]).freed = true ∧
          (run genStd 64 [.clone, .drop]).freed = false := by decide
-- two clones in flight at the limit: the first check passes, the second aborts
example : (crun genStd 3 2 [.fetchAdd, .check 0, .forget, .fetchAdd, .check 0, .forget, .fetchAdd, .fetchAdd]).word = 5 ∧
          (crun genStd 3 2 [.fetchAdd, .check 0, .forget, .fetchAdd, .check 0, .forget, .fetchAdd, .fetchAdd, .check 0]).live = 2 ∧
          (crun genStd 3 2 [.fetchAdd, .check 0, .forget, .fetchAdd, .check 0, .forget, .fetchAdd, .fetchAdd, .check 0, .check 0]).aborted = true := by
  decide

/-- the same facts with the action turned into a catchable panic -/
def panicFacts : GuardFacts := { genStd with action := .panics }
/-- … and with the guard removed -/
def noGuardFacts : GuardFacts := { genStd with action := .nothing }

/-- **Necessity of "not catchable".**  With a catchable panic as the guard's action, the count stays
incremented after each caught panic; on a 3-bit word: three clones (word 4 = MAX+1, handles 4),
four caught panics push the word around to 0, one more clone now *succeeds* (old value 0), and
dropping that clone frees the block while four handles are still live. -/
theorem C16_catchable_panic_wraps :
    let s := run panicFacts 3 [.clone, .clone, .clone, .clone, .clone, .clone, .clone, .clone, .drop]
    s.aborted = false ∧ s.freed = true ∧ s.live = 4 := by decide

/-- **Necessity of the guard.**  Without it the word simply wraps. -/
theorem C16_no_guard_wraps :
    let s := run noGuardFacts 3 [.clone, .clone, .clone, .clone, .clone, .clone, .clone]
    s.aborted = false ∧ s.word = 0 ∧ s.live = 8 := by decide

end C16
