import TriompheModel.Model.Cmp
/-!
# `drv_cmp` — line-protocol driver of model M5 (C14)

One answer line per input line.

```
C sliceEqViaNe=<0|1>                                    -> ok        (calibrated `core` behaviour)
T eq=<bits> ne= lt= le= gt= ge= pc=<LEGN..> cm=<LEG..> hs=<hex>/<hex>/.. db=<s>/<s>/.. dp=<s>/..
                                                        -> ok        (tables of the scripted payload)
Q <kind> <same|dist> <int|flt|tab> <A> <B>              -> R|eq=..|ne=..|lt=..|le=..|gt=..|ge=..|pc=..|cm=..|ha=..|hb=..|da=..|db=..|pa=..|pb=..
M <int> <arc|hs> <key>.. ? <probe>..                     -> M|h=<i or ->,..|b=..|br=1|ar=1
```
kinds: `arc offset borrow u11 u12 u21 u22 thin hs hswl prot slice`.  A value is `<elem>` for the
scalar kinds and `<header>:<e1>,<e2>,..|_:<recorded length>|=` for the header-slice kinds
(`=` = the slice length).  `same`: the second handle is a clone of the first (B is ignored).
Observers a kind/payload does not have print `-`.
-/
open Cmp

namespace DrvCmp

def hexDigit (n : Nat) : Char :=
  if n < 10 then Char.ofNat (48 + n) else Char.ofNat (87 + n)

def hex2 (n : Nat) : String :=
  String.ofList [hexDigit (n / 16 % 16), hexDigit (n % 16)]

def fmtBool (b : Bool) : String := if b then "1" else "0"

def fmtPO : Option Ordering → String
  | none => "N"
  | some .lt => "L"
  | some .eq => "E"
  | some .gt => "G"

def fmtHash (l : List Nat) : String :=
  if l.isEmpty then "_" else String.join (l.map hex2)

/-- all eleven observations of `Q` on `(x, y)`, `-` for those not in `tr` -/
def render {β : Type} (Q : PayloadOps β) (tr : List Observer) (x y : β) : String :=
  let on (o : Observer) (s : Unit → String) : String := if tr.contains o then s () else "-"
  "R|eq=" ++ on .eq (fun _ => fmtBool (Q.eq x y)) ++
  "|ne=" ++ on .ne (fun _ => fmtBool (Q.ne x y)) ++
  "|lt=" ++ on .lt (fun _ => fmtBool (Q.lt x y)) ++
  "|le=" ++ on .le (fun _ => fmtBool (Q.le x y)) ++
  "|gt=" ++ on .gt (fun _ => fmtBool (Q.gt x y)) ++
  "|ge=" ++ on .ge (fun _ => fmtBool (Q.ge x y)) ++
  "|pc=" ++ on .partialCmp (fun _ => fmtPO (Q.partialCmp x y)) ++
  "|cm=" ++ on .cmp (fun _ => fmtPO (some (Q.cmp x y))) ++
  "|ha=" ++ on .hash (fun _ => fmtHash (Q.hash x)) ++
  "|hb=" ++ on .hash (fun _ => fmtHash (Q.hash y)) ++
  "|da=" ++ on .debug (fun _ => Q.debug x) ++
  "|db=" ++ on .debug (fun _ => Q.debug y) ++
  "|pa=" ++ on .display (fun _ => Q.display x) ++
  "|pb=" ++ on .display (fun _ => Q.display y)

/-- a payload domain: its operators, how to read an element, which observers the payload type has -/
structure Dom (α : Type) where
  ops : PayloadOps α
  parse : String → Option α
  traits : List Observer

structure Val (α : Type) where
  h : α
  s : List α
  len : Nat
  scalar : Bool

def parseVal {α : Type} (pe : String → Option α) (str : String) : Option (Val α) :=
  match str.splitOn ":" with
  | [h] => (pe h).map fun v => ⟨v, [], 0, true⟩
  | [h, es, l] => do
    let hv ← pe h
    let xs ← if es == "_" then some [] else (es.splitOn ",").mapM pe
    let n ← if l == "=" then some xs.length else l.toNat?
    pure ⟨hv, xs, n, false⟩
  | _ => none

def meet (a b : List Observer) : List Observer := a.filter b.contains

def answerQ {α : Type} (c : StdCfg) (D : Dom α) (kind : String) (same : Bool) (a b : Val α) : String :=
  let P := D.ops
  let b := if same then a else b
  let i : Nat := 0
  let j : Nat := if same then 0 else 1
  let S := sliceOps c P
  match kind with
  | "arc" => render (arcOps P) (meet Kind.arc.traits D.traits) ⟨i, a.h⟩ ⟨j, b.h⟩
  | "offset" => render (offsetOps P) (meet Kind.offset.traits D.traits) ⟨i, a.h⟩ ⟨j, b.h⟩
  | "borrow" => render (borrowOps P) (meet Kind.borrow.traits D.traits) ⟨i, a.h⟩ ⟨j, b.h⟩
  | "u11" => render (unionOps P P) (meet Kind.union.traits D.traits) (.first ⟨i, a.h⟩) (.first ⟨j, b.h⟩)
  | "u12" => render (unionOps P P) (meet Kind.union.traits D.traits) (.first ⟨i, a.h⟩) (.second ⟨j, b.h⟩)
  | "u21" => render (unionOps P P) (meet Kind.union.traits D.traits) (.second ⟨i, a.h⟩) (.first ⟨j, b.h⟩)
  | "u22" => render (unionOps P P) (meet Kind.union.traits D.traits) (.second ⟨i, a.h⟩) (.second ⟨j, b.h⟩)
  | "thin" => render (thinOps c P P) (meet Kind.thin.traits D.traits)
      ⟨i, ⟨⟨a.h, a.s.length⟩, a.s⟩⟩ ⟨j, ⟨⟨b.h, b.s.length⟩, b.s⟩⟩
  | "hs" => render (arcOps (hsOps P S)) (meet Kind.hs.traits D.traits) ⟨i, ⟨a.h, a.s⟩⟩ ⟨j, ⟨b.h, b.s⟩⟩
  | "hswl" => render (arcOps (hswlOps P S)) (meet Kind.hswl.traits D.traits)
      ⟨i, ⟨⟨a.h, a.len⟩, a.s⟩⟩ ⟨j, ⟨⟨b.h, b.len⟩, b.s⟩⟩
  | "prot" => render (arcOps (protOps c P P)) (meet Kind.prot.traits D.traits)
      ⟨i, ⟨⟨⟨a.h, a.s.length⟩, a.s⟩⟩⟩ ⟨j, ⟨⟨⟨b.h, b.s.length⟩, b.s⟩⟩⟩
  | "slice" => render (arcOps S) (meet Kind.slice.traits D.traits) ⟨i, a.s⟩ ⟨j, b.s⟩
  | _ => "bad"

def fmtOptNat : Option Nat → String
  | none => "-"
  | some n => toString n

/-- `M`: insert the keys (each in its own allocation) with their index as value, then probe -/
def answerM {κ : Type} (Q : PayloadOps κ) (keys probes : List κ) : String :=
  let idx := (List.range keys.length).zip keys
  let hm := idx.foldl (fun m (e : Nat × κ) => hmInsert Q m ⟨e.1, e.2⟩ e.1) []
  let bt := idx.foldl (fun m (e : Nat × κ) => btInsert Q m ⟨e.1, e.2⟩ e.1) []
  "M|h=" ++ ",".intercalate (probes.map fun p => fmtOptNat (hmGet Q hm p)) ++
  "|b=" ++ ",".intercalate (probes.map fun p => fmtOptNat (btGet Q bt p)) ++
  "|br=1|ar=1"

def intDom : Dom Int := ⟨intOps, String.toInt?, Observer.all⟩

def parseFlt (s : String) : Option Flt :=
  if s == "nan" then some .nan else if s == "nz" then some .nzero else s.toInt?.map .num

def fltDom : Dom Flt :=
  ⟨fltOps, parseFlt, [.eq, .ne, .lt, .le, .gt, .ge, .partialCmp, .debug, .display]⟩

def tabDom (t : Tables) : Dom Nat := ⟨tabOps t, String.toNat?, Observer.all⟩

def emptyTables : Tables := ⟨0, [], [], [], [], [], [], [], [], [], [], []⟩

def parseBits (s : String) : List Bool := s.toList.map (· == '1')

def parsePO (s : String) : List (Option Ordering) :=
  s.toList.map fun ch => if ch == 'L' then some .lt else if ch == 'E' then some .eq else if ch == 'G' then some .gt else none

def parseO (s : String) : List Ordering :=
  s.toList.map fun ch => if ch == 'L' then .lt else if ch == 'G' then .gt else .eq

def hexVal (ch : Char) : Nat :=
  if ch.isDigit then ch.toNat - 48 else ch.toNat - 87

def parseHex : List Char → List Nat
  | a :: b :: rest => (hexVal a * 16 + hexVal b) :: parseHex rest
  | _ => []

def parseHashes (s : String) : List (List Nat) :=
  (s.splitOn "/").map fun e => if e == "_" then [] else parseHex e.toList

def field (kvs : List (String × String)) (k : String) : String :=
  match kvs.find? (·.1 == k) with
  | some kv => kv.2
  | none => ""

def parseTables (toks : List String) : Tables :=
  let kvs := toks.filterMap fun t =>
    match t.splitOn "=" with
    | [k, v] => some (k, v)
    | _ => none
  let hs := parseHashes (field kvs "hs")
  { n := hs.length
    eq := parseBits (field kvs "eq"), ne := parseBits (field kvs "ne")
    lt := parseBits (field kvs "lt"), le := parseBits (field kvs "le")
    gt := parseBits (field kvs "gt"), ge := parseBits (field kvs "ge")
    pc := parsePO (field kvs "pc"), cm := parseO (field kvs "cm")
    hs := hs, db := (field kvs "db").splitOn "/", dp := (field kvs "dp").splitOn "/" }

structure St where
  cfg : StdCfg
  tab : Tables

def doQ (st : St) (kind alloc dom a b : String) : String :=
  let same := alloc == "same"
  if alloc != "same" && alloc != "dist" then "bad" else
  match dom with
  | "int" =>
    match parseVal intDom.parse a, parseVal intDom.parse b with
    | some x, some y => answerQ st.cfg intDom kind same x y
    | _, _ => "bad"
  | "flt" =>
    match parseVal fltDom.parse a, parseVal fltDom.parse b with
    | some x, some y => answerQ st.cfg fltDom kind same x y
    | _, _ => "bad"
  | "tab" =>
    let D := tabDom st.tab
    match parseVal D.parse a, parseVal D.parse b with
    | some x, some y => answerQ st.cfg D kind same x y
    | _, _ => "bad"
  | _ => "bad"

def splitAt? (toks : List String) : List String × List String :=
  (toks.takeWhile (· != "?"), (toks.dropWhile (· != "?")).drop 1)

def doM (st : St) (dom kind : String) (rest : List String) : String :=
  if dom != "int" then "bad" else
  let (ks, ps) := splitAt? rest
  match ks.mapM (parseVal intDom.parse), ps.mapM (parseVal intDom.parse) with
  | some keys, some probes =>
    match kind with
    | "arc" => answerM intOps (keys.map (·.h)) (probes.map (·.h))
    | "hs" =>
      answerM (hsOps intOps (sliceOps st.cfg intOps))
        (keys.map fun v => ⟨v.h, v.s⟩) (probes.map fun v => ⟨v.h, v.s⟩)
    | _ => "bad"
  | _, _ => "bad"

def step (st : St) (line : String) : St × String :=
  match line.trimAscii.toString.splitOn " " with
  | ["C", kv] =>
    match kv.splitOn "=" with
    | ["sliceEqViaNe", v] => ({ st with cfg := { sliceEqViaNe := v == "1" } }, "ok")
    | _ => (st, "bad")
  | "T" :: toks => ({ st with tab := parseTables toks }, "ok")
  | ["Q", kind, alloc, dom, a, b] => (st, doQ st kind alloc dom a b)
  | "M" :: dom :: kind :: rest => (st, doM st dom kind rest)
  | _ => (st, "bad")

partial def loop (hin hout : IO.FS.Stream) (st : St) : IO Unit := do
  let line ← hin.getLine
  if line.isEmpty then pure () else
    let (st', out) := step st line
    hout.putStrLn out
    loop hin hout st'

end DrvCmp

def main : IO Unit := do
  let hin ← IO.getStdin
  let hout ← IO.getStdout
  DrvCmp.loop hin hout ⟨{}, DrvCmp.emptyTables⟩
  hout.flush
