"""C17 — serialisation is transparent; deserialisation yields a fresh sole owner.

Deciding method: Lean theorems of `TriompheModel.Props.C17` about the model `Model/Serde.lean`
(∀ payload = arbitrary serialize/deserialize functions, ∀ serializer state, ∀ deserializer, ∀ heap):
`C17_serialize_transparent`, `C17_deserialize_fresh_sole_owner`, `C17_error_passthrough_no_alloc`,
`C17_in_place_fresh_sole_owner`, `C17_in_place_error` (the provided `deserialize_in_place`, not overridden).
The proofs are short because the model of the four impls is a delegation, exactly as the source;
the weight is in the two ties:

Tie A: the translator (vlib/traits_facts) reports the census of serde entry points; `obl_serde_impl_census`
(by `decide`) demands exactly Serialize::serialize and Deserialize::deserialize for Arc and UniqueArc and no
other serde trait method (so `deserialize_in_place` is serde's provided one).  Whether the four bodies are
spelled as the literal delegation is *advisory*: a body the translator does not recognise makes this run use
the thorough-sized correspondence sample (the bodies are tied to the model by Tie B, not by their spelling).

Tie B: harness binary `serdecorr` (recording serde::Serializer with every method, replaying
Deserializer over an in-memory value tree, failure injected at the k-th callback, tracking
allocator) against the Lean driver `drv_serde` on the same (payload, k) lines.

Monitor (independent of the model — the property itself): for every payload value and every k,
the log / result / error of `Arc<T>` and `UniqueArc<T>` equal `T`'s own call for call, an injected
error comes out as the very same error object; after deserialising: value equal to what `T`'s
deserialiser yields, count 1 / unique, the handle's block was allocated by this call (exactly one
allocation of an Arc block), everything freed on drop; on error no Arc block (nor anything else) is
left live.
"""
import os
import random
import re
from concurrent.futures import ThreadPoolExecutor

from vlib import common
from vlib import traits_facts

MODULE = "TriompheModel.Props.C17"
BATCH = 250      # query lines per harness process (bounds the allocator's record table)

ASSUME = [
    "payload universe of the correspondence = the harness's family (u8, u64, i32, bool, (), a zero-sized unit struct with hand-written impls, [u8; 0], String, (u32,String), Vec<u16>, Option<u8>, a nested struct with hand-written impls); the theorems are for arbitrary payloads",
    "serializer/deserializer universe of the correspondence = one recording serializer implementing every serde::Serializer method and one replaying deserializer, both failing at a chosen k-th callback; the theorems are for arbitrary serializer states",
    "Part 2 of Model/Serde.lean (the call sequences serde 1.0's own impls for std types make) is a model of serde, not of triomphe; it is validated by the same correspondence (T's own log must match it)",
    "an Arc block is recognised by its layout Layout(usize).extend(Layout(T)).pad_to_align() (repr(C) ArcInner), the handle's block by heap_ptr()",
    "Generated/Impls.lean is produced by the translator /verif/extract_traits; it classifies a body as derefSerialize / mapNew only if it is exactly that expression",
]

WORDS = ["", "a", "ab", "hello_world", "x9", "zzzzzzzzzzzzzzzzzzzzzzzzzzzzzzzzzzzzzzzz"]


# ------------------------------------------------------------------------------------------------
# payload descriptions (token lists); the same text goes to the harness and to the Lean driver
def opt_tok(o):
    return ["none"] if o is None else ["some", str(o)]


def outer_tok(id_, name, a, b, tags, opt):
    return ["outer", str(id_), "=" + name, str(a), "true" if b else "false", str(len(tags))] + [str(t) for t in tags] + opt_tok(opt)


def fixed_payloads():
    ps = []
    ps += [["u8", str(v)] for v in (0, 7, 255)]
    ps += [["u64", str(v)] for v in (0, 1, 2 ** 63, 2 ** 64 - 1)]
    ps += [["i32", str(v)] for v in (-2 ** 31, -1, 0, 5, 2 ** 31 - 1)]
    ps += [["bool", "true"], ["bool", "false"], ["unit"], ["marker"], ["arr0"]]
    # values that contain handles: n nested Arcs (every depth up to 140 — any internal nesting limit must not exist —, then deeper)
    ps += [["chain", str(n)] for n in list(range(0, 141)) + [200, 255, 256, 257, 500, 1000]]
    ps += [["str", "=" + w] for w in WORDS[:4]]
    ps += [["pair", "0", "="], ["pair", "4294967295", "=xyz"], ["pair", "7", "=ab"]]
    ps += [["seq", str(len(x))] + [str(i) for i in x] for x in ([], [1], [1, 2, 3], [65535, 0, 9, 8, 7, 6, 5, 4])]
    ps += [["opt"] + opt_tok(o) for o in (None, 0, 255)]
    ps += [outer_tok(0, "", 0, False, [], None), outer_tok(3, "nm", -4, True, [1, 2], 9),
           outer_tok(4294967295, "hello_world", 2 ** 31 - 1, False, [7, 7, 7, 7, 7], 0)]
    return ps


def random_payloads(rnd, n, deep):
    ps = []
    maxlen = 40 if deep else 10
    for _ in range(n):
        k = rnd.randrange(9)
        word = "".join(rnd.choice("abcdefghijklmnopqrstuvwxyz0123456789_") for _ in range(rnd.randrange(0, 24 if deep else 9)))
        if k == 0:
            ps.append(["u8", str(rnd.randrange(256))])
        elif k == 1:
            ps.append(["u64", str(rnd.randrange(2 ** 64))])
        elif k == 2:
            ps.append(["i32", str(rnd.randrange(-2 ** 31, 2 ** 31))])
        elif k == 3:
            ps.append(["str", "=" + word])
        elif k == 4:
            ps.append(["pair", str(rnd.randrange(2 ** 32)), "=" + word])
        elif k == 5:
            xs = [rnd.randrange(65536) for _ in range(rnd.randrange(0, maxlen))]
            ps.append(["seq", str(len(xs))] + [str(x) for x in xs])
        elif k == 6:
            ps.append(["opt"] + opt_tok(rnd.choice([None, rnd.randrange(256)])))
        else:
            tags = [rnd.randrange(65536) for _ in range(rnd.randrange(0, maxlen))]
            ps.append(outer_tok(rnd.randrange(2 ** 32), word, rnd.randrange(-2 ** 31, 2 ** 31), rnd.random() < .5, tags,
                                rnd.choice([None, rnd.randrange(256)])))
    return ps


# ------------------------------------------------------------------------------------------------
PART = re.compile(r"(T|Arc|Unique)=(ok|err)\(([^)]*)\)(?:\[([^\]]*)\])?(?:\{([^}]*)\})?")


def kv(s):
    d = {}
    for item in (s or "").split(","):
        if "=" in item:
            k, v = item.split("=", 1)
            d[k] = v
    return d


def parse(line):
    """{'T': {...}, 'Arc': {...}, 'Unique': {...}} or None"""
    res = {}
    for m in PART.finditer(line):
        inner = m.group(3)
        head, _, log = inner.partition(";log=")
        res[m.group(1)] = {"kind": m.group(2), "head": head, "log": log, "R": "%s(%s)" % (m.group(2), inner),
                           "heap": kv(m.group(4)), "heap_raw": m.group(4), "impl": kv(m.group(5))}
    return res if set(res) == {"T", "Arc", "Unique"} else None


def monitor(mode, p):
    """The property on one implementation observation; list of violated clauses."""
    bad = []
    t = p["T"]
    for h in ("Arc", "Unique"):
        x = p[h]
        name = h + "<T>" if h == "Arc" else "UniqueArc<T>"
        if x["R"] != t["R"]:
            what = "serializer" if mode == "ser" else "deserializer"
            bad.append("%s drives the %s differently from T: %s vs T's %s" % (name, what, x["R"], t["R"]))
            continue
        if x["kind"] == "err":
            if x["impl"].get("passthrough") != "true":
                bad.append("%s: the error that came out is not the error object the %s produced" % (name, "serializer" if mode == "ser" else "deserializer"))
        if x["impl"].get("nhr_same") != "true":
            bad.append("%s behaves differently from T when the %s reports is_human_readable() == false" % (name, "serializer" if mode == "ser" else "deserializer"))
        if mode == "ser" and h == "Arc":
            im = x["impl"]
            if "cnt_after" in im and (im.get("cnt_after") != "1" or im.get("unique_after") != "true" or im.get("freed") != "true"):
                bad.append("%s: after this serialisation (%s) the handle is no longer what it was: count %s, is_unique %s, block freed on drop: %s — a reference "
                           "was taken and not given back" % (name, x["kind"], im.get("cnt_after"), im.get("unique_after"), im.get("freed")))
            if im.get("reentrant_same", "true") != "true":
                bad.append("%s: serialising while the serializer takes (and keeps) another handle to the same value at its first callback does not give "
                           "the same calls / result as without — the impl depends on the count staying put during the payload's serialisation" % name)
        if mode == "dip":
            # in-place deserialisation into a handle that already exists (Arc: shared with two more owners, old count 3;
            # UniqueArc: sole).  "produces a NEW handle that is the SOLE owner": the place ends up on a fresh block with
            # count 1, the old allocation loses exactly one owner and keeps its value; on error everything is as before.
            hp, im = x["heap"], x["impl"]
            old0 = 3 if h == "Arc" else 1
            if x["kind"] == "ok":
                if hp.get("eq") != "true":
                    bad.append("%s (in place): deserialised value differs from what T's deserialiser yields" % name)
                if hp.get("count") != "1" or hp.get("fresh") != "true":
                    bad.append("%s (in place): the handle is not a new sole owner (count=%s, block allocated by this call: %s)" % (name, hp.get("count"), hp.get("fresh")))
                if hp.get("allocs") != "1":
                    bad.append("%s (in place): %s Arc-block allocations instead of exactly one" % (name, hp.get("allocs")))
                if hp.get("old_count") != str(old0 - 1) or hp.get("old_same") != "true":
                    bad.append("%s (in place): the allocation the place referred to before: count %s (expected %d), value untouched: %s" % (
                        name, hp.get("old_count"), old0 - 1, hp.get("old_same")))
            else:
                if im.get("same_msg") != "true" or im.get("passthrough") != "true":
                    bad.append("%s (in place): error differs from T's error" % name)
                if hp.get("allocs") != "0" or hp.get("old_count") != str(old0) or hp.get("old_same") != "true" or hp.get("place_same") != "true":
                    bad.append("%s (in place): after the error the place / its allocation changed (allocs=%s old_count=%s old_same=%s place_same=%s)" % (
                        name, hp.get("allocs"), hp.get("old_count"), hp.get("old_same"), hp.get("place_same")))
            if im.get("leaked") != "0":
                bad.append("%s (in place): %s allocations left behind" % (name, im.get("leaked")))
            if im.get("bad_events", "0") != "0":
                bad.append("%s (in place): allocator / payload misuse events: %s" % (name, im.get("bad_events")))
            continue
        if mode != "de":
            continue
        if x["kind"] == "ok":
            hp, im = x["heap"], x["impl"]
            if hp.get("eq") != "true":
                bad.append("%s: deserialised value differs from what T's deserialiser yields" % name)
            if hp.get("count") != "1" or im.get("strong") != "1" or im.get("unique") != "true":
                bad.append("%s: not a sole owner (count=%s strong_count=%s is_unique=%s)" % (name, hp.get("count"), im.get("strong"), im.get("unique")))
            if hp.get("fresh") != "true":
                bad.append("%s: the handle's block was not allocated by this deserialisation (not a new handle)" % name)
            if hp.get("allocs") != "1":
                bad.append("%s: %s Arc-block allocations instead of exactly one" % (name, hp.get("allocs")))
            if im.get("freed_on_drop") != "true" or im.get("leaked") != "0":
                bad.append("%s: dropping the sole owner did not free everything (freed_on_drop=%s leaked=%s)" % (name, im.get("freed_on_drop"), im.get("leaked")))
        else:
            im = x["impl"]
            if im.get("same_msg") != "true":
                bad.append("%s: error differs from T's error" % name)
            if im.get("arc_blocks_live") != "0" or im.get("leaked") != "0":
                bad.append("%s: an allocation is left behind after the error (Arc blocks live: %s, allocations live: %s)" % (name, im.get("arc_blocks_live"), im.get("leaked")))
        if x["impl"].get("bad_events", "0") != "0":
            bad.append("%s: allocator / payload misuse events: %s" % (name, x["impl"].get("bad_events")))
    return bad


def agree(mode, pi, pm):
    """model ↔ implementation: results/logs of T, Arc, Unique and the predicted heap facts"""
    out = []
    for h in ("T", "Arc", "Unique"):
        if pi[h]["R"] != pm[h]["R"]:
            out.append("%s: impl %s / model %s" % (h, pi[h]["R"], pm[h]["R"]))
        elif mode in ("de", "dip") and h != "T" and pi[h]["heap"] != pm[h]["heap"]:
            out.append("%s: impl [%s] / model [%s]" % (h, pi[h]["heap_raw"], pm[h]["heap_raw"]))
    return out


MAX_CRASHES = 24


# ------------------------------------------------------------------------------------------------
def run_lines(binpath, drv, lines):
    """feed the same lines to the harness (in batches, in parallel) and to the driver"""
    text = "".join(l + "\n" for l in lines)
    batches = [lines[i:i + BATCH] for i in range(0, len(lines), BATCH)]

    crashes = [0]

    def one(b):
        if crashes[0] >= MAX_CRASHES:
            # enough crashing queries have been isolated (each costs a process): the rest of this run is not evaluated
            return ["SKIPPED-after-%d-crashes" % MAX_CRASHES] * len(b)
        rc, out, err = common.sh2([binpath], stdin="".join(l + "\n" for l in b), timeout=300)
        o = out.split("\n")[:-1] if out.endswith("\n") else out.split("\n")
        if rc == 5:
            raise RuntimeError("serdecorr: allocation record table full: %s" % err[-300:])
        if rc != 0 or len(o) != len(b):
            if len(b) == 1:
                # the process running the REAL impls died on this query (double free, abort, ...): an observation
                crashes[0] += 1
                return ["CRASH status=%s stderr=%s" % (rc, " ".join(err.strip().split())[-200:].replace("(", "[").replace(")", "]"))]
            # isolate the queries that kill the process
            return [x for q in b for x in one([q])]
        return o
    with ThreadPoolExecutor(max_workers=min(8, max(1, len(batches)))) as ex:
        impl = [l for b in ex.map(one, batches) for l in b]
    rc, out, err = common.sh2([drv], stdin=text, timeout=300)
    model = out.split("\n")[:-1] if out.endswith("\n") else out.split("\n")
    if rc != 0 or len(model) != len(lines):
        raise RuntimeError("drv_serde failed rc=%d: %s %s" % (rc, out[-400:], err[-400:]))
    return impl, model


def evaluate(lines, impl, model):
    res = []
    for q, i, m in zip(lines, impl, model):
        if i.startswith("SKIPPED-after-"):
            continue
        mode = q.split(" ", 1)[0]
        pi, pm = parse(i), parse(m)
        if i.startswith("CRASH") and pm is not None:
            res.append({"q": q, "mode": mode, "impl": i, "model": m, "pi": pm, "pm": pm, "disagree": [],
                        "monitor": ["the process running the real serde impls died on this query (%s): memory was corrupted (double drop / free of a live value) "
                                    "or it aborted" % i[6:]]})
            continue
        if pi is None or pm is None:
            raise RuntimeError("unparsable answer for `%s`: impl `%s` model `%s`" % (q, i[:300], m[:300]))
        res.append({"q": q, "mode": mode, "impl": i, "model": m, "pi": pi, "pm": pm,
                    "monitor": monitor(mode, pi), "disagree": agree(mode, pi, pm)})
    return res


def explore(ctx, binpath, drv, payloads):
    """pass 1: k = 0 for every payload and mode (learn the number of callbacks n from BOTH sides);
    pass 2: every k in 1 .. n+1 (n+1 = one past the last callback: no failure happens)."""
    first = ["%s 0 %s" % (mode, " ".join(p)) for p in payloads for mode in ("ser", "de", "dip") if mode == "ser" or p[0] != "chain"]
    impl, model = run_lines(binpath, drv, first)
    r1 = evaluate(first, impl, model)
    second = []
    for r in r1:
        ns = []
        for side in (r["pi"], r["pm"]):
            m = re.match(r"n=(\d+)", side["T"]["head"])
            if m:
                ns.append(int(m.group(1)))
        n = max(ns) if ns else 3
        mode, _, rest = r["q"].split(" ", 2)
        second += ["%s %d %s" % (mode, k, rest) for k in range(1, n + 2)]
    impl, model = run_lines(binpath, drv, second)
    return r1 + evaluate(second, impl, model)


def describe(r):
    s = ["query: %s" % r["q"],
         "  (mode `%s`, k = index of the callback made to fail, 0 = none; payload description as in harness/src/bin/serdecorr.rs)" % r["mode"],
         "implementation: %s" % r["impl"],
         "model (drv_serde): %s" % r["model"]]
    return "\n".join(s)


DEMAND = ("the property demands: the log/result/error of Arc<T> and UniqueArc<T> equal T's own, call for call, for every k; an injected error "
          "comes out unchanged; deserialising yields value == T's, count 1, a block allocated by this call (exactly one Arc-block allocation); "
          "on error nothing is left allocated\n")


def size_of_case(r):
    return (len(r["q"].split()), len(r["q"]))


def run(ctx):
    ctx.assumptions = ASSUME
    tf = traits_facts.regen(ctx)
    serde_rows = [(i.get("trait"), i.get("selfHead"), i.get("method"), i.get("form"), i.get("body")) for i in tf.get("impls", [])
                  if i.get("trait") in ("Serialize", "Deserialize")]
    ctx.coverage["generated_facts"] = {"serde_impls": serde_rows}
    ok, out = common.lean_obligations(ctx, MODULE)

    drv = common.lean_exe("drv_serde")
    binpath, bout = common.cargo_build_bin(ctx, "serdecorr")
    if binpath is None:
        common.harness_build_failed(ctx, "serdecorr", bout, what="the serde correspondence harness")
        return
    rnd = random.Random(ctx.seed)
    forms = {(r[0], r[1], r[2]): r[3] for r in serde_rows}
    recognised = (forms.get(("Serialize", "Arc", "serialize")) == "derefSerialize" and forms.get(("Serialize", "UniqueArc", "serialize")) == "derefSerialize"
                  and forms.get(("Deserialize", "Arc", "deserialize")) == "mapNew" and forms.get(("Deserialize", "UniqueArc", "deserialize")) == "mapNew")
    ctx.coverage["generated_facts"]["bodies_are_literal_delegations"] = recognised
    deep = ctx.thorough() or not recognised
    if not recognised:
        ctx.notes.append("advisory: a serde impl body is not spelled as the literal delegation (%s); the correspondence sample of this run is the thorough-sized one" % forms)
    payloads = fixed_payloads() + random_payloads(rnd, (3000 if ctx.thorough() else 300) if deep else 30, deep)
    seen = set()
    payloads = [p for p in payloads if not (" ".join(p) in seen or seen.add(" ".join(p)))]
    res = explore(ctx, binpath, drv, payloads)
    # the same queries on the RELEASE build of the harness (the crate's debug_assert!s vanish: an impl whose only write sits inside
    # one delivers garbage there) — the fixed payload set; a failing build of the release harness is reported, not fatal
    relbin, relout = common.cargo_build_bin(ctx, "serdecorr", release=True)
    if relbin is not None:
        res_rel = explore(ctx, relbin, drv, fixed_payloads())
        for r in res_rel:
            r["q"] = r["q"] + "   [release profile]"
        ctx.coverage["release_profile_queries"] = len(res_rel)
        res = res + res_rel
    else:
        ctx.notes.append("release build of the serde harness failed: " + relout[-300:])

    viol = [r for r in res if r["monitor"]]
    dis = [r for r in res if r["disagree"]]
    ctx.oblige("corr:serialize-log", not [r for r in dis if r["mode"] == "ser"], "%d disagreements" % len([r for r in dis if r["mode"] == "ser"]))
    ctx.oblige("corr:deserialize-log-and-heap", not [r for r in dis if r["mode"] == "de"], "%d disagreements" % len([r for r in dis if r["mode"] == "de"]))
    ctx.oblige("corr:deserialize-in-place-log-and-heap", not [r for r in dis if r["mode"] == "dip"], "%d disagreements" % len([r for r in dis if r["mode"] == "dip"]))
    ctx.oblige("monitor:transparent-fresh-sole-owner-no-leak", not viol, "%d cases" % len(viol))

    # ---- coverage -------------------------------------------------------------------------------
    fam = {}
    for r in res:
        f = r["q"].split()[2]
        fam[f] = fam.get(f, 0) + 1
    nontrivial = {r["q"] for r in res if (r["pi"]["T"]["kind"] == "err") or int(re.match(r"n=(\d+)", r["pi"]["T"]["head"]).group(1)) >= 1}
    ctx.coverage.update({
        "evaluations": len(res),
        "distinct_nontrivial": len(nontrivial),
        "rule": ("one evaluation = one (mode ser|de, payload value, failing callback index k) run through T, Arc<T> and UniqueArc<T> on the real impls "
                 "and through the Lean model; payload values: a fixed boundary list per family + PRNG-drawn values (seed = VERIF_SEED); k ranges over 0 and "
                 "1..n+1 where n = number of callbacks of the failure-free run; non-trivial = at least one serializer/deserializer callback was made; "
                 "distinct = distinct query lines"),
        "payload_values": len(payloads),
        "by_family": fam,
        "by_mode": {m: sum(1 for r in res if r["mode"] == m) for m in ("ser", "de", "dip")},
        "failing_runs": sum(1 for r in res if r["pi"]["T"]["kind"] == "err"),
        "successful_runs": sum(1 for r in res if r["pi"]["T"]["kind"] == "ok"),
        "max_callbacks": max(int(re.match(r"n=(\d+)", r["pi"]["T"]["head"]).group(1)) for r in res if r["pi"]["T"]["kind"] == "ok"),
        "model_impl_disagreements": len(dis),
        "exhaustive": False,
        "samples": [{"query": r["q"], "impl": r["impl"][:600], "model": r["model"][:400]}
                    for r in (res[40:41] + res[len(res) // 2: len(res) // 2 + 2] + res[-1:])],
    })

    # ---- verdict --------------------------------------------------------------------------------
    if viol:
        viol.sort(key=size_of_case)
        r = viol[0]
        body = ["C17 violated on a concrete input (%d of %d evaluations violate the property; the smallest:" % (len(viol), len(res)), "", describe(r), "",
                "property clauses violated:"]
        body += ["  - " + m for m in r["monitor"]]
        body += ["", DEMAND, "further violating queries:"]
        body += ["  query: " + x["q"] for x in viol[1:40]]
        if ctx.failed_obligations():
            body.append("\nfailed obligations: " + ", ".join(ctx.failed_obligations()))
        if not ok:
            body.append("Lean output:\n" + out[-2500:])
        body.append("\nreplay: /verif/bin/check C17 --replay <this file> [--repo %s]" % ctx.repo)
        ctx.violation("ops", "\n".join(body), True)
    elif ctx.failed_obligations():
        body = ["Obligations of C17 that no longer check:"]
        body += ["  " + n for n in ctx.failed_obligations()]
        body.append("generated serde impl facts: %s" % serde_rows)
        if dis:
            dis.sort(key=size_of_case)
            body += ["", "smallest model/implementation disagreement:", describe(dis[0])] + ["  " + d for d in dis[0]["disagree"]]
            body += ["  query: " + x["q"] for x in dis[1:40]]
        body.append("\nsearch: %d evaluations (%d payload values x every failing callback index, serialise and deserialise); the property monitor held on "
                    "every one of them" % (len(res), len(payloads)))
        body.append(DEMAND)
        if not ok:
            body.append("Lean output:\n" + out[-3000:])
        ctx.violation("theorem", "\n".join(body), False)


# ------------------------------------------------------------------------------------------------
def replay(ctx, path):
    """Re-run the `query:` lines of a replay file on the implementation and the model."""
    ctx.assumptions = ASSUME
    text = open(path).read()
    lines = []
    for m in re.finditer(r"^\s*query: ((?:ser|de|dip) \d+ .+)$", text, re.M):
        q = m.group(1).strip()
        if q not in lines:
            lines.append(q)
    if not lines:
        traits_facts.regen(ctx)
        ok, out = common.lean_obligations(ctx, MODULE)
        print("replay: no query in %s; Lean obligations re-checked: %s" % (path, "ok" if ok else "FAILED"))
        if not ok:
            ctx.violation("theorem", "Lean obligations of C17 fail:\n" + out[-3000:], False, tag="r")
        ctx.coverage.update({"evaluations": 1, "distinct_nontrivial": 0, "rule": "replay of a theorem-kind file", "samples": [path]})
        return
    drv = common.lean_exe("drv_serde")
    binpath, bout = common.cargo_build_bin(ctx, "serdecorr")
    if binpath is None:
        raise RuntimeError("harness `serdecorr` does not build:\n" + bout[-3000:])
    impl, model = run_lines(binpath, drv, lines)
    res = evaluate(lines, impl, model)
    for r in res:
        print("replay `%s`: %s" % (r["q"], "VIOLATES: " + "; ".join(r["monitor"]) if r["monitor"] else
                                   ("holds" + ("  (model disagrees: %s)" % "; ".join(r["disagree"]) if r["disagree"] else ""))))
    bad = [r for r in res if r["monitor"]]
    ctx.oblige("replay:monitor", not bad)
    ctx.coverage.update({"evaluations": len(res), "distinct_nontrivial": len(set(lines)), "rule": "replayed queries",
                         "samples": [{"query": r["q"], "impl": r["impl"][:400]} for r in res[:5]]})
    if bad:
        bad.sort(key=size_of_case)
        r = bad[0]
        ctx.violation("ops", describe(r) + "\nproperty clauses violated:\n" + "\n".join("  - " + m for m in r["monitor"]) + "\n" + DEMAND +
                      "".join("  query: %s\n" % x["q"] for x in bad[1:]), True, tag="r")
