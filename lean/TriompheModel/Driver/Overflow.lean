import TriompheModel.Model.Overflow
/-!
`drv_ovf` — the executable overflow model behind a line protocol (Tie B of C16).

One query per input line, one answer line per query:

* `clone <std|nostd> <bits> <start>`      →  `ok <count after>` | `abort <kind> <word after>`
  (`kind` ∈ processAbort doublePanic unwinding unknown; `bits = 64` goes through the `BitVec 64`
  model `cloneWord`, other widths through `cloneNat`)
* `facts`                                 →  the guard facts the model is instantiated at
* anything else                           →  `bad-query`
-/
open Overflow Facts

def factsOf (cfg : String) : Option GuardFacts :=
  if cfg == "std" then some genStd else if cfg == "nostd" then some genNoStd else none

def answerClone (G : GuardFacts) (bits start : Nat) : String :=
  if bits == 64 then
    let w := BitVec.ofNat 64 start
    match cloneWord G w with
    | .ok v => s!"ok {v.toNat}"
    | .error a => s!"abort {a.name} {(wordAfter w).toNat}"
  else
    match cloneNat G bits (start % 2 ^ bits) with
    | .ok v => s!"ok {v}"
    | .error a => s!"abort {a.name} {fetchAddNat bits (start % 2 ^ bits)}"

def answer (line : String) : String :=
  match line.trimAscii.toString.splitOn " " with
  | ["clone", cfg, bits, start] =>
    match factsOf cfg, bits.toNat?, start.toNat? with
    | some G, some b, some s => answerClone G b s
    | _, _, _ => "bad-query"
  | ["facts"] => s!"std={repr genStd} nostd={repr genNoStd}".replace "\n" " "
  | _ => "bad-query"

partial def loop (hin hout : IO.FS.Stream) : IO Unit := do
  let line ← hin.getLine
  if line.isEmpty then return
  hout.putStrLn (answer line)
  loop hin hout

def main : IO Unit := do
  let hin ← IO.getStdin
  let hout ← IO.getStdout
  loop hin hout
  hout.flush
