//! C02: as clone_read_drop_2t with main + two workers.
use litmus::*;
use triomphe::Arc;

fn main() {
    let mut t = Tally::new();
    for r in 0..rounds(6) {
        clone_read_drop::<Arc<Payload>>(&mut t, 3, 20 + r as u64);
    }
    t.finish();
}
