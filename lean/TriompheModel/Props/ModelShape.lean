import TriompheModel.Generated.Atomics
/-!
Obligations tying the *shape* of the count-manipulating code to what the sequential model M1
(`Model/Heap.lean`: `incr`, `decr`, `loadCount`) mirrors.  They are facts the translator reads from
`/repo/src` on every run; no execution on one thread can observe most of them.

* the count word is modified only by the `fetch_add(1)` in `Arc::clone` (model: `incr`) and by the
  `fetch_sub(1)` in `Arc::drop_inner` (model: `decr`); no other write / RMW on a count exists;
* `drop_inner` is: decrement, return unless the old value was 1, (fence), destroy — which is exactly
  the control flow of `decr`;
* `is_unique` is `count == 1` (model: `Arc.is_unique`);
* `Clone`/`Drop`/`clone_arc` of the other handle kinds contain no atomic access of their own and
  funnel into `Arc`'s (model: `ThinArc.clone := … Arc.clone …`, etc.).
-/
open Facts
namespace ModelShape

def censusOk : Bool :=
  Generated.unknownWrites.isEmpty &&
  Generated.sites.all (fun s => !s.kind.isWrite || s.debugOnly ||
    (s.fn_ == "Arc::clone" && s.kind == .fetchAdd) ||
    (s.fn_ == "Arc::drop_inner" && (s.kind == .fetchSub || s.kind == .fence)))
theorem obl_census : censusOk = true := by decide

theorem obl_one_inc_one_dec :
    (Generated.sites.filter (fun s => s.kind == .fetchAdd && !s.debugOnly)).length = 1 ∧
    (Generated.sites.filter (fun s => s.kind == .fetchSub && !s.debugOnly)).length = 1 := by decide

def skeletonOk : Bool :=
  (Generated.dropSkeleton == [.decGuard, .fence, .destroy] && Generated.fence.isSome) ||
  (Generated.dropSkeleton == [.decGuard, .destroy] && Generated.fence.isNone)
theorem obl_drop_skeleton : skeletonOk = true := by decide
theorem obl_dec_guard : Generated.decGuard = ⟨.ne, some 1⟩ := by decide
theorem obl_is_unique_guard : Generated.isUniqueGuard = ⟨.eq, some 1⟩ := by decide

def funnelsOk : Bool := Generated.funnels.all (fun f => f.ownAtomics == 0 && f.reaches)
theorem obl_funnels : funnelsOk = true := by decide

end ModelShape
